#!/bin/bash
# tools/benigncheck.sh <name> <worktree>  -- confirm a behaviour-preserving change delivered in <worktree>/_seed
# (applies cleanly, builds, the touched packages' tests pass) and keep it as seeded/<name> with "at_head": "neutral":
# selftest/run.sh then demands that the property's check stays quiet on it.
set -u
name=$1; wt=$2
export PATH=/root/go/pkg/mod/golang.org/toolchain@v0.0.1-go1.26.0.linux-amd64/bin:$PATH GOTOOLCHAIN=local GOFLAGS=-mod=mod GOPROXY=off GOSUMDB=off
cd "$wt" || exit 2
git reset -q; git checkout -q -- . ; git clean -fdq -e _seed
seed=$wt/_seed
log=/tmp/benigncheck-$name.log; : > $log
git apply $seed/patch.diff || { echo "NOT CONFIRMED $name: patch does not apply"; exit 2; }
pkgs=$(grep '^+++ b/' $seed/patch.diff | sed 's|^+++ b/||' | grep '\.go$' | xargs -n1 dirname | sort -u | sed 's|^|./|')
go build ./... >>$log 2>&1; build=$?
go test -vet=off -count=1 -timeout 900s $pkgs >>$log 2>&1; tests=$?
git reset -q; git checkout -q -- . ; git clean -fdq -e _seed
if [ $build -eq 0 ] && [ $tests -eq 0 ]; then
  mkdir -p /verif/seeded/$name && cp $seed/patch.diff $seed/meta.json /verif/seeded/$name/
  python3 - <<PY
import json
p='/verif/seeded/$name/meta.json'
m=json.load(open(p)); m['at_head']='neutral'; m['kind']='behaviour-preserving'
m["confirmed"]={"by":"tools/benigncheck.sh in a scratch worktree","build_ok":True,"existing_tests_of_touched_packages_pass_with_change":"""$pkgs""".split()}
json.dump(m,open(p,'w'),indent=1)
PY
  echo "CONFIRMED $name"
else
  echo "NOT CONFIRMED $name build=$build tests=$tests (see $log)"
fi
