#!/bin/bash
# tools/bounded.sh <pkgdir> <test-file> <run-regex> [timeout]  -- bounded stand-in: runs a test against the real
# package via go test -overlay (nothing written to the repository); prints the test's BOUNDED line; exit 1 on failure.
# VERIF_REPO (default /repo) selects the tree (the must-fail selftest points it at a scratch worktree).
set -u
pkg=$1; file=$2; run=$3; to=${4:-600s}
repo=${VERIF_REPO:-/repo}
export PATH=/opt/veriftools/go1.26.8/bin:$PATH GOTOOLCHAIN=local GOFLAGS=-mod=mod GOPROXY=off GOSUMDB=off
ov=$(mktemp /var/tmp/ov-XXXXXX.json)
printf '{"Replace": {"%s/%s/zz_bounded_%s": "%s"}}\n' "$repo" "$pkg" "$(basename $file)" "$(readlink -f $file)" > $ov
out=$(cd $repo && go test -overlay $ov -vet=off -count=1 -timeout $to -run "$run" -v ./$pkg/ 2>&1)
rc=$?
rm -f $ov
echo "$out" | grep "^BOUNDED \|^KNOWN-FINDING" || true
if [ $rc -ne 0 ]; then echo "$out" | grep -v "INFO\|DEBG\|WARN" | tail -40; fi
exit $rc
