#!/usr/bin/env python3
"""tools/scopecheck.py -- every contract tagged `props <ID>` must live in a package that <ID>'s check loads
(props.json packages); otherwise the contract exists but never runs for that property. Exit 1 on a gap."""
import glob, json, os, re, sys
root = os.path.dirname(os.path.dirname(os.path.abspath(__file__)))
repo = os.environ.get('VERIF_REPO', '/repo')
props = json.load(open(os.path.join(root, 'props.json')))
tag = {}
for f in glob.glob(repo + '/**/verif_contracts*.go', recursive=True):
    pkg = './' + os.path.dirname(f)[len(repo) + 1:]
    for l in open(f):
        m = re.match(r'//@ props (.*)', l)
        if m:
            for p in m.group(1).split():
                tag.setdefault(p, set()).add(pkg)
bad = 0
for pid, p in sorted(props.items()):
    miss = tag.get(pid, set()) - set(p['packages'])
    if miss:
        print('SCOPE-GAP', pid, 'tagged but not loaded:', sorted(miss))
        bad = 1
sys.exit(bad)
