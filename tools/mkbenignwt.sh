#!/bin/bash
# tools/mkbenignwt.sh <ID> <n>  -- scratch worktree + prompt for a sub-agent that writes a behaviour-PRESERVING change
# (a refactor a maintainer would make) to the functions a property depends on. The registered check must stay quiet on it
# (kept as seeded/<ID>-b<n> with "at_head": "neutral"). Contracts are hidden from the agent as in mkseedwt.sh.
set -eu
id=$1; r=$2
wt=/tmp/seedwt/$id-b$r
mkdir -p /tmp/seedwt
[ -d $wt ] && { git -C /repo worktree remove --force $wt 2>/dev/null || rm -rf $wt; }
git -C /repo worktree add -q --detach $wt HEAD
cd $wt
for f in $(git ls-files | grep 'verif_contracts.go$'); do git update-index --skip-worktree $f; rm -f $f; done
mkdir -p _seed
python3 - "$id" "$r" "$wt" > /tmp/seedwt/$id-b$r.prompt <<'PY'
import json,sys
pid,r,wt=sys.argv[1:4]
prop=[json.loads(l) for l in open('/verif/properties.jsonl') if json.loads(l)['id']==pid][0]
print(f"""You are helping to test a verification effort for ObolNetwork/charon (Go; Ethereum distributed-validator middleware). Your job is to write ONE realistic, BEHAVIOUR-PRESERVING change (a refactor / clean-up of the kind maintainers commit every week) to the code that the semantic property below depends on. The property must STILL HOLD after your change, the code must compile and all existing tests must still pass. The change is used to check that a verifier does not raise false alarms on harmless edits, so it must be genuinely harmless - but it should not be trivial either.

Work ONLY inside the scratch git worktree {wt} (a detached worktree of the repository). Never touch /repo or /verif, never commit, never push. Do not inspect the git history or other git objects, and do not look for or read any file named verif_contracts.go. Deliver everything under {wt}/_seed/ (already created).

## The property

id: {prop['id']}
title: {prop['title']}
statement: {prop['statement']}
code anchors: {json.dumps(prop['anchors'], indent=1)}

## What kind of change

Pick TWO OR THREE of the functions named in the anchors (or helpers they call directly) and apply, across them, a mix of at least four of these harmless edits:
- rename local variables, parameters, named results or a method receiver (keep exported names and function/method names unchanged);
- reorder statements that are independent of each other; merge or split conditions (`if a {{ continue }}; if b {{ continue }}` <-> `if a || b {{ continue }}`), invert an `if` with early `continue`/`return`, turn an if-chain into a `switch` or back;
- rewrite a `for _, x := range xs` loop as an index loop `for i := 0; i < len(xs); i++` or `for i := range xs` (or the reverse);
- add a debug log line or a metric-free comment, change the wording of an error message or wrap an error with more context (but do not change WHEN errors are returned);
- introduce a local variable for a repeated sub-expression, or inline such a variable; pre-size a slice or map with make(..., n);
- hoist a constant expression out of a loop.
Do NOT rename, add, remove, split or merge functions or methods, do not change signatures' types, do not change observable behaviour (results, errors returned or not, what is stored / sent / called and in which order, locking), do not touch *_test.go files or go.mod.

## Environment (no network)

Every shell call needs:  export PATH=/root/go/pkg/mod/golang.org/toolchain@v0.0.1-go1.26.0.linux-amd64/bin:$PATH GOTOOLCHAIN=local GOFLAGS=-mod=mod GOPROXY=off GOSUMDB=off
Always pass -vet=off -count=1 and a -timeout to go test. Run tests only for the packages you touch and their direct importers (use at most 4 parallel test processes: `-p 4`). A handful of tests fail or flake on the untouched tree in this sandbox (e.g. tests needing the network); if a test fails with your change, check whether it also fails without it.

## Deliverables, all under {wt}/_seed/

1. `patch.diff` - `git diff -- . ':(exclude)_seed' > _seed/patch.diff` (production files only; must apply with `git apply` to a clean checkout).
2. `meta.json` with exactly these keys:
   - "property": "{pid}"
   - "summary": what you changed and where (a paragraph), and why behaviour is unchanged
   - "needs_to_manifest": "nothing: behaviour-preserving change"
   - "at_head": "neutral"
   - "edits": list of the kinds of harmless edits applied, each with the function it was applied to
   - "existing_tests_run": list of the commands you ran and their outcome (with the change)
   - "files_changed": list of changed files

Before you finish, verify and state: (a) `go build ./...` succeeds; (b) the existing tests of every touched package pass with the change; (c) you re-read your diff line by line and are confident behaviour is identical for every input and schedule. Leave the worktree with the change applied.
""")
PY
echo /tmp/seedwt/$id-b$r.prompt
