#!/usr/bin/env python3
"""Regenerate MANIFEST.json from props.json (claimed = property has a committed ledger)."""
import json, os, subprocess
root = os.path.dirname(os.path.dirname(os.path.abspath(__file__)))
props = [json.loads(l) for l in open(os.path.join(root, 'properties.jsonl'))]
cfg = json.load(open(os.path.join(root, 'props.json')))
hooks = subprocess.run(['git', '-C', '/repo', 'log', '--format=%H %s', '024de4b..HEAD'], capture_output=True, text=True).stdout.strip().split('\n')
hook_commits = [l.split()[0] for l in hooks if l and ('verif hook' in l or l.split(' ', 1)[1].startswith('verif:'))]
m = {
 "version": 1,
 "setup_cmd": "./setup.sh",
 "hooks": {"guard": "verif", "enable": "-tags verif (the only hook files are /repo/**/verif_contracts.go: '//go:build verif', a package clause and //@ contract comments; nothing is compiled into charon)", "baseline_off_cmd": "cd /repo && go test -vet=off -count=1 -timeout 25m ./...", "source_commits": hook_commits, "add_only": True},
 "engines": [{"name": "govc", "path": "/verif/govc", "serves_properties": [], "kind_free_text": "contract-based deductive verifier for Go written for this task: symbolic execution / weakest preconditions over the typed AST of /repo's current working tree (go/packages + go/types), contracts as //@ comments in verif_contracts.go (requires/ensures/loop invariants/assigns/callreq/ghost call counters/spec functions/lemmas), one SMT query per named obligation, discharged by z3 4.8.12, z3 5.1.0 and cvc5 1.0 raced per obligation; a committed ledger lists the obligations that must be generated and discharged"}],
 "checks": [], "not_applicable": [],
 "notes": "Every claimed check is ./check <ID>; bounded stand-ins for dependency contracts are run by the same command and reported separately under coverage.bounded_checks (never counted as proved)."
}
for p in props:
    pid = p['id']
    c = cfg.get(pid)
    if c and os.path.exists(os.path.join(root, 'ledger', pid + '.json')) and not c.get('not_applicable'):
        m['engines'][0]['serves_properties'].append(pid)
        m['checks'].append({
            "property_id": pid, "quick_cmd": f"./check {pid}", "thorough_cmd": f"./check {pid} --tier thorough",
            "evidence_file": f"/verif/evidence/{pid}.json", "replay_cmd_template": "cat {path}", "engine": "govc",
            "level_claimed": {"category": "proof", "text": c.get('level_text', 'function contracts on the real Go source, discharged for all inputs and all loop iterations'), "design_ref": "DESIGN.md §5 " + pid},
            "level_note": c.get('level_note', 'trusted: govc VC generator, SMT solvers; per-run assumptions and abstracted constructs are listed in the evidence file'),
            "technique": c.get('technique', 'contract-based deductive verification (WP/symbolic execution over the typed Go AST, obligations discharged by z3/cvc5)')})
    else:
        reason = (c or {}).get('not_applicable') or "no contract for this property is under the verifier yet in this commit (see DESIGN.md §5 for the planned obligations)"
        m['not_applicable'].append({"property_id": pid, "reason": reason})
json.dump(m, open(os.path.join(root, 'MANIFEST.json'), 'w'), indent=1)
print("claimed:", [c['property_id'] for c in m['checks']])
