#!/bin/bash
# tools/mkseedwt.sh <ID> <round>  -- scratch worktree of /repo's HEAD for a seeding sub-agent, with the contract files
# (the only trace of /verif inside /repo) removed and hidden from git (skip-worktree), plus the prompt text.
# Prints the prompt file path. Nothing from /verif other than the property record and the list of places earlier
# seeds already changed goes into the prompt.
set -eu
id=$1; r=$2
wt=/tmp/seedwt/$id-r$r
mkdir -p /tmp/seedwt
[ -d $wt ] && { git -C /repo worktree remove --force $wt 2>/dev/null || rm -rf $wt; }
git -C /repo worktree add -q --detach $wt HEAD
cd $wt
for f in $(git ls-files | grep 'verif_contracts.go$'); do git update-index --skip-worktree $f; rm -f $f; done
mkdir -p _seed
python3 - "$id" "$r" "$wt" > /tmp/seedwt/$id-r$r.prompt <<'PY'
import json,sys,glob,os
pid,r,wt=sys.argv[1:4]
prop=[json.loads(l) for l in open('/verif/properties.jsonl') if json.loads(l)['id']==pid][0]
used=[]
for d in sorted(glob.glob(f'/verif/seeded/{pid}*')):
    try: m=json.load(open(d+'/meta.json'))
    except Exception: continue
    used.append('- '+m['summary'][:230].replace('\n',' ')+' …')
print(f"""You are helping to test a verification effort for ObolNetwork/charon (Go; Ethereum distributed-validator middleware). Your job is to write ONE realistic change to the code base that BREAKS the semantic property below, while the code still compiles and ALL existing tests of the repository still pass, together with a demonstration (a Go test) that fails with your change and passes without it.

Work ONLY inside the scratch git worktree {wt} (a detached worktree of the repository). Never touch /repo or /verif, never commit, never push. Do not inspect the git history or other git objects (no git log / git show / git stash / other worktrees), and do not look for or read any file named verif_contracts.go: your change must be independent of any verification material. Deliver everything under {wt}/_seed/ (already created).

## The property

id: {prop['id']}
title: {prop['title']}
statement: {prop['statement']}
quantified over: {prop['quantifier']['text']}
why the existing tests cannot settle it: {prop['why_tests_cant']}
code anchors: {json.dumps(prop['anchors'], indent=1)}

## What kind of change

- It must look like something a developer could plausibly commit: an optimisation, a refactor, a hardening, a clean-up, a feature tweak — not an obvious sabotage, no dead code, no magic constants that single out your demo input, no test-only switches.
- It must need something SPECIFIC to manifest: a particular interleaving, a crash or fault at a particular point, a multi-step sequence of operations, an unusual input (size, ordering, duplicate, boundary), or two cooperating sites that each look fine alone. Ordinary use must not expose it at once, and the repository's own tests must keep passing.
- It may touch any production (non-test) file that the property depends on, also files that are not named in the anchors (helpers, callers, wiring, wrappers, encoders, option handling, caches). Do not edit, delete or add any *_test.go file or testdata as part of the change (the demonstration is delivered separately), and do not change go.mod.
- Earlier changes for this property already used the mechanisms listed here; choose a DIFFERENT function or a different mechanism (a different code path, data structure or interaction), preferably in a different function:
{chr(10).join(used) if used else '- (none yet)'}

## Environment (no network)

Every shell call needs:  export PATH=/root/go/pkg/mod/golang.org/toolchain@v0.0.1-go1.26.0.linux-amd64/bin:$PATH GOTOOLCHAIN=local GOFLAGS=-mod=mod GOPROXY=off GOSUMDB=off
Always pass -vet=off -count=1 and a -timeout to go test. Run tests only for the packages you touch and the packages that import them (find them with `go list -f '{{{{.ImportPath}}}} {{{{.Imports}}}}' ./... | grep <pkg>` or grep), not the whole repository at once if you can avoid it — other jobs share this machine (use at most 4 parallel test processes: `-p 4`). A handful of tests in the repository fail or flake on the untouched tree in this sandbox (for instance tests needing the network); if a test fails with your change, check whether it also fails without it before worrying.

## Deliverables, all under {wt}/_seed/

1. `patch.diff`  — `git diff` of your change against the worktree's HEAD (production files only; must apply with `git apply` to a clean checkout). Produce it with `git diff -- . ':(exclude)_seed' > _seed/patch.diff` while the demo file is NOT in the tree (or is untracked).
2. `demo_test.go` — a Go test file (package of the directory it is to be copied into; give it test names starting with `TestDemo{pid}`) that FAILS with your change applied and PASSES on the unmodified tree. It should demonstrate the property violation as directly as you can (observable behaviour that contradicts the property statement), not merely a difference in internals. Keep it deterministic (retry loops for schedule-dependent failures are fine if the failure is then near-certain) and under about two minutes.
3. `meta.json` with exactly these keys:
   - "property": "{pid}"
   - "summary": what you changed, where, and why it breaks the property (a paragraph)
   - "needs_to_manifest": the specific input / interleaving / sequence that is needed
   - "demo_pkg_dir": directory (relative to the repository root) the demo file must be copied into, e.g. "core/dutydb"
   - "demo_files": ["demo_test.go"]
   - "demo_cmd": e.g. "go test -vet=off -count=1 -timeout 600s -run TestDemo{pid} ./core/dutydb/"
   - "existing_tests_run": list of the commands you ran and their outcome (with the change)
   - "files_changed": list of changed files

Before you finish, verify yourself and state in your final answer: (a) `go build ./...` succeeds with the change; (b) the existing tests of every touched package and of the packages importing it pass with the change; (c) the demo fails with the change; (d) the demo passes with the change reverse-applied (`git apply -R _seed/patch.diff`), then re-apply it. Leave the worktree with the change applied and the demo file only under _seed/. If after a serious attempt you cannot find such a change, say so plainly rather than delivering a weak one. If while reading the code you notice that the UNMODIFIED code already violates the property for some input or schedule, report that too (with the input), separately from your change.
""")
PY
echo /tmp/seedwt/$id-r$r.prompt
