#!/bin/bash
# tools/seedcheck.sh <seed-name> <worktree>  -- independently confirm a seeded change delivered in <worktree>/_seed:
#  builds, touched packages' existing tests pass with it, demo fails with it and passes without it.
# On success copies it to /verif/seeded/<seed-name>/ with a "confirmed" block in meta.json.
set -u
name=$1; wt=$2
export PATH=/root/go/pkg/mod/golang.org/toolchain@v0.0.1-go1.26.0.linux-amd64/bin:$PATH GOTOOLCHAIN=local GOFLAGS=-mod=mod GOPROXY=off GOSUMDB=off
cd "$wt" || exit 2
git reset -q; git checkout -q -- . ; git clean -fdq -e _seed
seed=$wt/_seed
# keep a copy of the deliverables outside the worktree so a failed confirmation never loses them
mkdir -p /var/tmp/seed-inbox/$name && cp -r $seed/* /var/tmp/seed-inbox/$name/
pkgdir=$(python3 -c "import json;print(json.load(open('$seed/meta.json'))['demo_pkg_dir'])")
demos=$(python3 -c "import json;print(' '.join(json.load(open('$seed/meta.json'))['demo_files']))")
log=/tmp/seedcheck-$name.log; : > $log
pkgs=$(grep '^+++ b/' $seed/patch.diff | sed 's|^+++ b/||' | grep '\.go$' | xargs -n1 dirname | sort -u | sed 's|^|./|')
runre=$(python3 -c "
import json,re
m=json.load(open('$seed/meta.json')); r=re.search(r'-run[ =]+[\'\"]?([^\'\" ]+)', m.get('demo_cmd',''))
print(r.group(1) if r else 'TestSeedDemo|TestDemo')")
run_demo() { for d in $demos; do cp $seed/$d $pkgdir/zz_seed_$d; done; go test -vet=off -count=1 -timeout 600s -run "$runre" ./$pkgdir/ >>$log 2>&1; rc=$?; for d in $demos; do rm -f $pkgdir/zz_seed_$d; done; return $rc; }
echo "== demo on unmodified tree" >>$log
run_demo; pass_without=$?
git apply $seed/patch.diff || { echo "patch does not apply" >>$log; exit 2; }
echo "== build with change" >>$log
go build ./... >>$log 2>&1; build=$?
echo "== existing tests of touched packages with change: $pkgs" >>$log
go test -vet=off -count=1 -timeout 900s $pkgs >>$log 2>&1; tests=$?
echo "== demo with change" >>$log
run_demo; fail_with=$?
git reset -q; git checkout -q -- . ; git clean -fdq -e _seed
echo "build=$build tests=$tests demo_without=$pass_without demo_with=$fail_with" | tee -a $log
if [ $build -eq 0 ] && [ $tests -eq 0 ] && [ $pass_without -eq 0 ] && [ $fail_with -ne 0 ]; then
  mkdir -p /verif/seeded/$name && cp $seed/* /verif/seeded/$name/
  python3 - <<PY
import json
p='/verif/seeded/$name/meta.json'
m=json.load(open(p))
m['confirmed']={'by':'tools/seedcheck.sh in a scratch worktree at the pinned commit','build_ok':True,'existing_tests_of_touched_packages_pass_with_change':'$pkgs'.split(),'demo_passes_without_change':True,'demo_fails_with_change':True}
json.dump(m,open(p,'w'),indent=1)
PY
  echo "CONFIRMED $name"
else
  echo "NOT CONFIRMED $name (see $log)"
fi
