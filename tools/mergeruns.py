#!/usr/bin/env python3
"""tools/mergeruns.py <log> ...  -- merge selftest logs into selftest/last_run.txt (one line per seeded change, later logs win)."""
import re, sys, os
root = os.path.dirname(os.path.dirname(os.path.abspath(__file__)))
lr = os.path.join(root, 'selftest', 'last_run.txt')
pat = re.compile(r'^(CAUGHT|MISSED|NEUTRAL|FALSE-ALARM) (C\d+(?:-[rb]\d\w?)?)\b')
res = {}
order = []
def feed(path):
    if not os.path.exists(path):
        return
    for l in open(path, errors='replace'):
        m = pat.match(l)
        if m:
            if m.group(2) not in res:
                order.append(m.group(2))
            res[m.group(2)] = l.rstrip('\n')
feed(lr)
for p in sys.argv[1:]:
    feed(p)
def key(s):
    m = re.match(r'C(\d+)(?:-([rb])(\d+))?', s)
    return (int(m.group(1)), m.group(2) or '', int(m.group(3) or 0))
with open(lr, 'w') as f:
    for s in sorted(res, key=key):
        f.write(res[s] + '\n')
c = {}
for v in res.values():
    c[v.split()[0]] = c.get(v.split()[0], 0) + 1
print(c)
