#!/usr/bin/env python3
"""Fill the generated blocks of DESIGN.md (per-property scope, seeded-change table) from props.json, the ledgers,
the last evidence files, known_findings.json, seeded/*/meta.json and selftest/last_run.txt."""
import json, os, re
root = os.path.dirname(os.path.dirname(os.path.abspath(__file__)))
J = lambda p: json.load(open(os.path.join(root, p)))
props = [json.loads(l) for l in open(os.path.join(root, 'properties.jsonl'))]
cfg = J('props.json')
kf = J('known_findings.json')

def block(text, name, body):
    a, b = f'<!-- BEGIN {name} -->', f'<!-- END {name} -->'
    i, j = text.index(a) + len(a), text.index(b)
    return text[:i] + '\n' + body.rstrip() + '\n' + text[j:]

out = []
for p in props:
    pid = p['id']
    c = cfg.get(pid)
    if not c or not os.path.exists(os.path.join(root, 'ledger', pid + '.json')):
        continue
    led = J(f'ledger/{pid}.json')
    ev = J(f'evidence/{pid}.json') if os.path.exists(os.path.join(root, f'evidence/{pid}.json')) else {'coverage': {}}
    fu = ev['coverage'].get('functions_under_contract') or []
    names = []
    for f in fu:
        n = f if isinstance(f, str) else f.get('name', str(f))
        names.append(n)
    out.append(f"### {pid} — {p['title']}\n")
    out.append(c.get('level_text', '') + '\n')
    out.append(f"* packages: {', '.join('`'+x+'`' for x in c['packages'])}")
    out.append(f"* obligations: **{len(led.get('proved') or [])} proved** in the ledger" + (f", {len(led.get('unproved') or [])} listed unproved: " + ', '.join('`'+x+'`' for x in led['unproved']) if led.get('unproved') else ''))
    if names:
        short = sorted(set(n.split(' ')[0].replace('github.com/obolnetwork/charon/', '') for n in names))
        out.append(f"* functions under contract ({len(short)}): " + ', '.join('`'+s+'`' for s in short))
    for b in c.get('bounded', []):
        out.append(f"* bounded stand-in `{b['name']}`: `{b['cmd']}`")
    for k in kf:
        if k['property'] == pid:
            out.append(f"* {k['kind']} finding: `{k.get('obligation','')}`" + (f" (fix `{k['commit']}`)" if k.get('commit') else ''))
    if c.get('not_decided'):
        out.append("* not decided:")
        out += [f"  * {x}" for x in c['not_decided']]
    if c.get('assumptions'):
        out.append("* assumptions: " + '; '.join(c['assumptions']))
    out.append('')
text = open(os.path.join(root, 'DESIGN.md')).read()
text = block(text, 'PROPS', '\n'.join(out))

# seeds
caught = {}
lr = os.path.join(root, 'selftest', 'last_run.txt')
if os.path.exists(lr):
    for l in open(lr):
        m = re.match(r'(CAUGHT|MISSED|NEUTRAL|FALSE-ALARM) (C\d+(?:-[rb]\d\w?)?)(?: \[replayed=\d+\])?[: ]*(.*)', l)
        if m:
            caught[m.group(2)] = (m.group(1), m.group(3).strip())
rows = ["| property | seeded change (files) | needs | reported by |", "|---|---|---|---|"]
for sid in sorted(os.listdir(os.path.join(root, 'seeded'))):
    mp = os.path.join(root, 'seeded', sid, 'meta.json')
    if not os.path.exists(mp):
        continue
    m = json.load(open(mp))
    summ = re.sub(r'\s+', ' ', m.get('summary', ''))
    summ = summ[:230] + ('…' if len(summ) > 230 else '')
    need = re.sub(r'\s+', ' ', m.get('needs_to_manifest', ''))
    need = need[:150] + ('…' if len(need) > 150 else '')
    st, obs = caught.get(sid, ('?', ''))
    obl = ' '.join(obs.split()[:2])
    if m.get('kind') == 'behaviour-preserving':
        verdict = {'NEUTRAL': 'quiet (as it must be)', 'FALSE-ALARM': f'**alarms** (`{obl}`): see §2.7, not repaired', '?': 'not run'}.get(st, st.lower())
        rows.append(f"| {sid} | behaviour-preserving: {summ} (`{', '.join(m.get('files_changed', []))}`) | nothing: the property holds | {verdict} |")
        continue
    if st == 'NEUTRAL':
        rows.append(f"| {sid} | {summ} (`{', '.join(m.get('files_changed', []))}`) | {need} | neutral at HEAD (neutralised by a fix commit): check stays quiet, as it must |")
        continue
    rows.append(f"| {sid} | {summ} (`{', '.join(m.get('files_changed', []))}`) | {need} | {st.lower()}: `{obl}` |")
text = block(text, 'SEEDS', '\n'.join(rows))
open(os.path.join(root, 'DESIGN.md'), 'w').write(text)
print('DESIGN.md blocks regenerated')
