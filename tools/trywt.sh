#!/bin/bash
# tools/trywt.sh <worktree> <ID>...  -- run the registered check of each property against a scratch worktree of /repo
# (evidence and replay files redirected to a throw-away root, nothing under /verif or /repo is written)
V=$(cd "$(dirname "$0")/.." && pwd)
export PATH=/opt/veriftools/go1.26.8/bin:$PATH GOPROXY=off GOSUMDB=off GOTOOLCHAIN=local
wt=$1; shift
for prop in "$@"; do
  root=$(mktemp -d /var/tmp/verif-try-XXXXXX)
  for f in props.json ledger known_findings.json tools bounded bin replays; do ln -s $V/$f $root/$f; done
  mkdir -p $root/evidence $root/replay
  out=$(VERIF_ROOT=$root $V/bin/govc check $prop -repo $wt 2>&1); rc=$?
  echo "$prop rc=$rc $(echo "$out" | tail -1)"
  echo "$out" | grep '^VIOLATION\|cannot-generate' | cut -c1-260 | head -${TRY_MAX:-12}
  rm -rf $root
done
