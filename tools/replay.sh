#!/bin/bash
# tools/replay.sh <pkgdir> <test-file> <run-regex>  -- run a replay test in-package against /repo via go test -overlay (nothing written to /repo)
set -u
pkg=$1; file=$2; run=$3
export PATH=/opt/veriftools/go1.26.8/bin:$PATH GOTOOLCHAIN=local GOFLAGS=-mod=mod GOPROXY=off GOSUMDB=off
ov=$(mktemp /var/tmp/ov-XXXXXX.json)
printf '{"Replace": {"/repo/%s/zz_replay_%s": "%s"}}\n' "$pkg" "$(basename $file)" "$(readlink -f $file)" > $ov
cd /repo && go test -overlay $ov -vet=off -count=1 -timeout 120s -run "$run" ./$pkg/ 2>&1 | tail -25
rc=${PIPESTATUS[0]}
rm -f $ov
exit $rc
