#!/bin/bash
# tools/seedproc.sh <ID>-rN ...  -- confirm delivered seeds (tools/seedcheck.sh) and run the must-fail selftest on them
cd "$(dirname "$0")/.."
ok=()
for s in "$@"; do
  r=$(tools/seedcheck.sh $s /tmp/seedwt/$s 2>&1 | tail -1)
  echo "$r"
  case "$r" in CONFIRMED*) ok+=($s);; esac
done
[ ${#ok[@]} -gt 0 ] && SELFTEST_PAR=3 selftest/run.sh "${ok[@]}" 2>&1 | cut -c1-300
