#!/usr/bin/env python3
# Generates the whole-object JSON formatter contracts of cluster (definition and lock, every format version) from a
# per-version field table. The table is the format specification (which fields a version's JSON object has); the
# clauses say that every such field is handed to / taken from encoding/json unchanged. Output: contract text on stdout.
common = ['Name','UUID','Version','Timestamp','NumValidators','Threshold','DKGAlgorithm','ConfigHash','DefinitionHash']
vers = {
 'V1x0or1':   dict(fork='hex', ops='1', vaddrs='legacy', creator=False, extra=[]),
 'V1x2or3':   dict(fork='raw', ops='2', vaddrs='legacy', creator=False, extra=[]),
 'V1x4':      dict(fork='raw', ops='2', vaddrs='legacy', creator=True,  extra=[]),
 'V1x5to7':   dict(fork='raw', ops='2', vaddrs='list',   creator=True,  extra=[]),
 'V1x8':      dict(fork='raw', ops='2', vaddrs='list',   creator=True,  extra=['DepositAmounts']),
 'V1x9':      dict(fork='raw', ops='2', vaddrs='list',   creator=True,  extra=['DepositAmounts','ConsensusProtocol']),
 'V1x10to11': dict(fork='raw', ops='2', vaddrs='list',   creator=True,  extra=['DepositAmounts','ConsensusProtocol','TargetGasLimit','Compounding']),
}
out=[]
for v,c in vers.items():
    # ---- marshal
    J='u1'; D='def'
    out.append(f'//@ func marshalDefinition{v}')
    out.append('//@ props C12')
    fields=common+c['extra']+(['ForkVersion'] if c['fork']=='raw' else [])
    out.append('//@ callreq json.Marshal: '+' && '.join(f'{J}.{f} == {D}.{f}' for f in fields))
    if c['fork']=='hex':
        out.append(f'//@ callreq json.Marshal: {J}.ForkVersion == to0xHex({D}.ForkVersion)')
    if c['creator']:
        out.append(f'//@ callreq json.Marshal: {J}.Creator.Address == {D}.Creator.Address && {J}.Creator.ConfigSignature == {D}.Creator.ConfigSignature')
    same='opSame'+c['ops']
    out.append(f'//@ callreq json.Marshal: len({J}.Operators) == len({D}.Operators) && forall(i, 0, len({D}.Operators), {same}({D}.Operators[i], {J}.Operators[i]))')
    if c['vaddrs']=='list':
        out.append(f'//@ callreq json.Marshal: len({J}.ValidatorAddresses) == len({D}.ValidatorAddresses) && forall(i, 0, len({D}.ValidatorAddresses), {J}.ValidatorAddresses[i].FeeRecipientAddress == {D}.ValidatorAddresses[i].FeeRecipientAddress && {J}.ValidatorAddresses[i].WithdrawalAddress == {D}.ValidatorAddresses[i].WithdrawalAddress)')
    else:
        out.append(f'//@ callreq json.Marshal: res(1, {D}.LegacyValidatorAddresses()) == nil && {J}.FeeRecipientAddress == res(0, {D}.LegacyValidatorAddresses()).FeeRecipientAddress && {J}.WithdrawalAddress == res(0, {D}.LegacyValidatorAddresses()).WithdrawalAddress')
    out.append('//@ ensures r1 == nil ==> ncalls(json.Marshal) == 1')
    out.append('')
    # ---- unmarshal
    J='defJSON'; D='def'
    out.append(f'//@ func unmarshalDefinition{v}')
    out.append('//@ props C12')
    out.append('//@ callreq json.Unmarshal: a1 == data && ncalls(json.Unmarshal) == 0')
    out.append('//@ ensures err == nil ==> '+' && '.join(f'{D}.{f} == {J}.{f}' for f in fields))
    if c['fork']=='hex':
        out.append(f'//@ ensures err == nil ==> res(1, from0xHex({J}.ForkVersion, forkVersionLen)) == nil && {D}.ForkVersion == res(0, from0xHex({J}.ForkVersion, forkVersionLen))')
    if c['creator']:
        out.append(f'//@ ensures err == nil ==> {D}.Creator.Address == {J}.Creator.Address && {D}.Creator.ConfigSignature == {J}.Creator.ConfigSignature')
    out.append(f'//@ ensures err == nil ==> len({D}.Operators) == len({J}.Operators) && forall(i, 0, len({D}.Operators), {same}({D}.Operators[i], {J}.Operators[i]))')
    if c['vaddrs']=='list':
        out.append(f'//@ ensures err == nil ==> len({D}.ValidatorAddresses) == len({J}.ValidatorAddresses) && len({D}.ValidatorAddresses) == {D}.NumValidators && forall(i, 0, len({D}.ValidatorAddresses), {D}.ValidatorAddresses[i].FeeRecipientAddress == {J}.ValidatorAddresses[i].FeeRecipientAddress && {D}.ValidatorAddresses[i].WithdrawalAddress == {J}.ValidatorAddresses[i].WithdrawalAddress)')
    else:
        out.append(f'//@ ensures err == nil ==> len({D}.ValidatorAddresses) == ite({J}.NumValidators > 0, {J}.NumValidators, 0) && forall(i, 0, len({D}.ValidatorAddresses), {D}.ValidatorAddresses[i].FeeRecipientAddress == {J}.FeeRecipientAddress && {D}.ValidatorAddresses[i].WithdrawalAddress == {J}.WithdrawalAddress)')
    out.append('//@ ensures err == nil ==> ncalls(json.Unmarshal) == 1')
    out.append('//@ canary err != nil')
    out.append('//@ canary err == nil')
    out.append('')
print('\n'.join(out))
