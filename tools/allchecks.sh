#!/bin/bash
# tools/allchecks.sh [tier]  -- run every registered check against /repo (4 at a time); prints one line per property.
# Run after every engine change: a check that alarms on the unchanged tree is broken.
cd "$(dirname "$0")/.."
tier=${1:-quick}
python3 tools/scopecheck.py || exit 1
ids=$(python3 -c "import json;print(' '.join(sorted(json.load(open('props.json')))))")
for p in $ids; do echo $p; done | xargs -P 4 -I{} sh -c "./check {} --tier $tier > /var/tmp/chk-{}.log 2>&1; echo \"{} rc=\$? \$(tail -n1 /var/tmp/chk-{}.log)\"" | sort
