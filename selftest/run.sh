#!/bin/bash
# selftest/run.sh [ID ...]   -- must-fail corpus: every seeded property-breaking change under /verif/seeded/<ID>/
# (each compiles and passes the repository's own tests) is applied to a scratch worktree of /repo's HEAD and the
# property's registered check is run against that worktree; the check must exit 1 with a VIOLATION line.
# Nothing is written to /repo, to /verif/evidence or to /verif/replay. Exit 0 iff every change is caught.
set -u
cd "$(dirname "$0")/.."
V=$(pwd)
ids=("$@")
if [ ${#ids[@]} -eq 0 ]; then ids=($(ls seeded)); fi
[ -x bin/govc ] || ./setup.sh >/dev/null
missed=0
# snapshot of the machinery, so that work on /verif while the corpus runs cannot change a run half-way
snap=$(mktemp -d /var/tmp/verif-selftest-snap-XXXXXX)
for f in props.json ledger known_findings.json tools bounded bin replays; do cp -r $V/$f $snap/$f; done
trap 'rm -rf $snap' EXIT
for id in "${ids[@]}"; do
  patch=$V/seeded/$id/patch.diff
  [ -f $V/seeded/$id/patch.head.diff ] && patch=$V/seeded/$id/patch.head.diff   # same change rebased onto a later fix commit
  prop=${id%%-*}   # seeded/C02-r2 is a second change for property C02
  [ -f "$patch" ] || continue
  wt=$(mktemp -d /var/tmp/verif-selftest-XXXXXX)
  root=$(mktemp -d /var/tmp/verif-selftest-root-XXXXXX)
  rmdir $wt
  git -C /repo worktree add -q --detach $wt HEAD || { echo "ERROR $id: cannot create worktree"; missed=1; continue; }
  if ! git -C $wt apply "$patch"; then
    echo "ERROR $id: patch does not apply to HEAD"; missed=1
  else
    for f in props.json ledger known_findings.json tools bounded bin replays; do ln -s $snap/$f $root/$f; done
    mkdir -p $root/evidence $root/replay
    out=$(VERIF_ROOT=$root $snap/bin/govc check $prop -repo $wt 2>&1); rc=$?
    nv=$(echo "$out" | grep -c '^VIOLATION')
    neutral=$(python3 -c "import json;print(json.load(open('$V/seeded/$id/meta.json')).get('at_head',''))" 2>/dev/null)
    if [ "$neutral" = "neutral" ]; then
      # the change no longer breaks the property on HEAD (neutralised by a later fix commit): the check must stay quiet
      if [ $rc -eq 0 ] && [ $nv -eq 0 ]; then echo "NEUTRAL $id: property holds at HEAD with this change and the check stays quiet"
      else echo "FALSE-ALARM $id (exit $rc): $(echo "$out" | grep '^VIOLATION' | head -3 | tr '\n' ' ')"; missed=1; fi
    elif [ $rc -eq 1 ] && [ $nv -gt 0 ]; then
      echo "CAUGHT $id: $(echo "$out" | grep '^VIOLATION' | sed 's|.*replay=[^ ]*/||; s|\.json.*||; s|\.txt.*||' | sort -u | tr '\n' ' ')"
    else
      echo "MISSED $id (exit $rc): $(echo "$out" | tail -2 | tr '\n' ' ')"; missed=1
    fi
  fi
  git -C /repo worktree remove --force $wt 2>/dev/null; rm -rf $wt $root
done
git -C /repo worktree prune
exit $missed
