#!/bin/bash
# selftest/run.sh [ID ...]   -- must-fail corpus: every seeded property-breaking change under /verif/seeded/<ID>/
# (each compiles and passes the repository's own tests) is applied to a scratch worktree of /repo's HEAD and the
# property's registered check is run against that worktree; the check must exit 1 with a VIOLATION line.
# Nothing is written to /repo, to /verif/evidence or to /verif/replay. Exit 0 iff every change is caught.
set -u
cd "$(dirname "$0")/.."
V=$(pwd)
ids=("$@")
if [ ${#ids[@]} -eq 0 ]; then ids=($(ls seeded)); fi
[ -x bin/govc ] || ./setup.sh >/dev/null
missed=0
for id in "${ids[@]}"; do
  patch=$V/seeded/$id/patch.diff
  [ -f $V/seeded/$id/patch.head.diff ] && patch=$V/seeded/$id/patch.head.diff   # same change rebased onto a later fix commit
  prop=${id%%-*}   # seeded/C02-r2 is a second change for property C02
  [ -f "$patch" ] || continue
  wt=$(mktemp -d /var/tmp/verif-selftest-XXXXXX)
  root=$(mktemp -d /var/tmp/verif-selftest-root-XXXXXX)
  rmdir $wt
  git -C /repo worktree add -q --detach $wt HEAD || { echo "ERROR $id: cannot create worktree"; missed=1; continue; }
  if ! git -C $wt apply "$patch"; then
    echo "ERROR $id: patch does not apply to HEAD"; missed=1
  else
    for f in props.json ledger known_findings.json tools bounded bin replays; do ln -s $V/$f $root/$f; done
    mkdir -p $root/evidence $root/replay
    out=$(VERIF_ROOT=$root bin/govc check $prop -repo $wt 2>&1); rc=$?
    nv=$(echo "$out" | grep -c '^VIOLATION')
    if [ $rc -eq 1 ] && [ $nv -gt 0 ]; then
      echo "CAUGHT $id: $(echo "$out" | grep '^VIOLATION' | sed 's|.*replay=[^ ]*/||; s|\.json.*||; s|\.txt.*||' | sort -u | tr '\n' ' ')"
    else
      echo "MISSED $id (exit $rc): $(echo "$out" | tail -2 | tr '\n' ' ')"; missed=1
    fi
  fi
  git -C /repo worktree remove --force $wt 2>/dev/null; rm -rf $wt $root
done
git -C /repo worktree prune
exit $missed
