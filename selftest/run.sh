#!/bin/bash
# selftest/run.sh [ID ...]   -- must-fail corpus: every seeded property-breaking change under /verif/seeded/<ID>/
# (each compiles and passes the repository's own tests) is applied to a scratch worktree of /repo's HEAD and the
# property's registered check is run against that worktree; the check must exit 1 with a VIOLATION line.
# A seed whose meta.json says "at_head": "neutral" (a behaviour-preserving change, seeded/<ID>-bN, or a change neutralised
# by a later fix commit) must leave the check quiet: anything else is reported as FALSE-ALARM.
# Nothing is written to /repo, to /verif/evidence or to /verif/replay. Exit 0 iff every change is handled as expected.
# The machinery (/verif) and the repository commit are snapshotted at start, so work on either while the corpus runs
# cannot change a run half-way. SELFTEST_PAR=<n> runs n seeds at a time (default 2).
set -u
V=${VERIF_HOME:-$(cd "$(dirname "$0")/.." && pwd)}
cd $V
export VERIF_HOME=$V

run_one() {
  local id=$1 snap=$2 head=$3
  local patch=$V/seeded/$id/patch.diff
  [ -f $V/seeded/$id/patch.head.diff ] && patch=$V/seeded/$id/patch.head.diff   # same change rebased onto a later fix commit
  local prop=${id%%-*}   # seeded/C02-r2 is a second change for property C02
  [ -f "$patch" ] || return 0
  local wt root out rc nv nr neutral
  wt=$(mktemp -d /var/tmp/verif-selftest-XXXXXX)
  root=$(mktemp -d /var/tmp/verif-selftest-root-XXXXXX)
  rmdir $wt
  git -C /repo worktree add -q --detach $wt $head || { echo "ERROR $id: cannot create worktree"; return 1; }
  local res=0
  if ! git -C $wt apply "$patch"; then
    echo "ERROR $id: patch does not apply to HEAD"; res=1
  else
    for f in props.json ledger known_findings.json tools bounded bin replays; do ln -s $snap/$f $root/$f; done
    mkdir -p $root/evidence $root/replay
    out=$(VERIF_ROOT=$root $snap/bin/govc check $prop -repo $wt 2>&1); rc=$?
    nv=$(echo "$out" | grep -c '^VIOLATION')
    nr=$(echo "$out" | grep '^VIOLATION' | grep -vc 'no-failing-input-found$')
    neutral=$(python3 -c "import json;print(json.load(open('$V/seeded/$id/meta.json')).get('at_head',''))" 2>/dev/null)
    if [ "$neutral" = "neutral" ]; then
      # the change no longer breaks the property on HEAD (neutralised by a later fix commit): the check must stay quiet
      if [ $rc -eq 0 ] && [ $nv -eq 0 ]; then echo "NEUTRAL $id: property holds at HEAD with this change and the check stays quiet"
      else echo "FALSE-ALARM $id (exit $rc): $(echo "$out" | grep '^VIOLATION' | head -3 | tr '\n' ' ')"; res=1; fi
    elif [ $rc -eq 1 ] && [ $nv -gt 0 ]; then
      echo "CAUGHT $id [replayed=$nr]: $(echo "$out" | grep '^VIOLATION' | sed 's|.*replay=[^ ]*/||; s|\.json.*||; s|\.txt.*||' | sort -u | tr '\n' ' ')"
    else
      echo "MISSED $id (exit $rc): $(echo "$out" | tail -2 | tr '\n' ' ')"; res=1
    fi
  fi
  git -C /repo worktree remove --force $wt 2>/dev/null; rm -rf $wt $root
  return $res
}

if [ "${1:-}" = "--one" ]; then
  run_one "$2" "$3" "$4"; exit $?
fi

ids=("$@")
if [ ${#ids[@]} -eq 0 ]; then ids=($(ls seeded)); fi
[ -x bin/govc ] || ./setup.sh >/dev/null
snap=$(mktemp -d /var/tmp/verif-selftest-snap-XXXXXX)
for f in props.json ledger known_findings.json tools bounded bin replays; do cp -r $V/$f $snap/$f; done
cp $V/selftest/run.sh $snap/run.sh
head=$(git -C /repo rev-parse HEAD)
trap 'rm -rf $snap' EXIT
printf '%s\n' "${ids[@]}" | xargs -P ${SELFTEST_PAR:-2} -I{} bash $snap/run.sh --one {} $snap $head
rc=$?
git -C /repo worktree prune
[ $rc -eq 0 ]
