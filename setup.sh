#!/bin/bash
# Build the verifier offline from vendored sources.
set -e
cd "$(dirname "$0")/govc"
export PATH=/opt/veriftools/go1.26.8/bin:$PATH GOFLAGS=-mod=vendor GOPROXY=off GOSUMDB=off GOTOOLCHAIN=local
mkdir -p ../bin
go build -o ../bin/govc .
echo "govc built"
