package eth2wrap_test

// Replay for finding F-C20: sync-committee duties served through the duties cache are shallow copies: the
// ValidatorSyncCommitteeIndices slice of what a caller receives shares its backing array with the cached entry
// (and with what the first caller received). A caller that writes to its own result changes what every later caller
// is served, so the cache no longer answers what the beacon node answers. The test asserts the property.

import (
	"context"
	"testing"

	eth2v1 "github.com/attestantio/go-eth2-client/api/v1"
	eth2p0 "github.com/attestantio/go-eth2-client/spec/phase0"

	"github.com/obolnetwork/charon/app/eth2wrap"
	"github.com/obolnetwork/charon/testutil/beaconmock"
)

func TestReplayC20SyncIndicesAlias(t *testing.T) {
	ctx := context.Background()
	bmock, err := beaconmock.New(t.Context())
	if err != nil {
		t.Fatal(err)
	}
	bmock.SyncCommitteeDutiesFunc = func(_ context.Context, _ eth2p0.Epoch, vidxs []eth2p0.ValidatorIndex) ([]*eth2v1.SyncCommitteeDuty, error) {
		var resp []*eth2v1.SyncCommitteeDuty
		for _, v := range vidxs {
			resp = append(resp, &eth2v1.SyncCommitteeDuty{ValidatorIndex: v, ValidatorSyncCommitteeIndices: []eth2p0.CommitteeIndex{7, 9}})
		}
		return resp, nil
	}
	vidxs := []eth2p0.ValidatorIndex{1, 2}
	c := eth2wrap.NewDutiesCache(bmock, vidxs)
	first, err := c.SyncCommDutiesCache(ctx, 3, vidxs) // miss: fetched and cached
	if err != nil {
		t.Fatal(err)
	}
	second, err := c.SyncCommDutiesCache(ctx, 3, vidxs) // hit
	if err != nil {
		t.Fatal(err)
	}
	// caller two edits ITS result
	second.Duties[0].ValidatorSyncCommitteeIndices[0] = 42
	third, err := c.SyncCommDutiesCache(ctx, 3, vidxs) // hit
	if err != nil {
		t.Fatal(err)
	}
	for _, d := range third.Duties {
		if d.ValidatorSyncCommitteeIndices[0] != 7 {
			t.Fatalf("validator %d: the cache now serves sync committee indices %v, the beacon node answers [7 9] (a caller's write to its own copy reached the cache)", d.ValidatorIndex, d.ValidatorSyncCommitteeIndices)
		}
	}
	for _, d := range first.Duties {
		if d.ValidatorSyncCommitteeIndices[0] != 7 {
			t.Fatalf("validator %d: another caller's result changed to %v", d.ValidatorIndex, d.ValidatorSyncCommitteeIndices)
		}
	}
}
