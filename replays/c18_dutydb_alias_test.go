package dutydb

// Replay for F-C18 (property C18): AwaitProposal / AwaitAttestation / AwaitSyncContribution hand out the
// stored pointer: two readers share mutable memory and a reader's mutation changes what later readers see.

import (
	"context"
	"testing"

	"github.com/stretchr/testify/require"

	"github.com/obolnetwork/charon/core"
	"github.com/obolnetwork/charon/testutil"
)

type replayDeadliner18 struct{}

func (replayDeadliner18) Add(core.Duty) core.DeadlineStatus { return core.DeadlineScheduled }
func (replayDeadliner18) C() <-chan core.Duty               { return nil }

func TestReplayC18Proposal(t *testing.T) {
	db := NewMemDB(replayDeadliner18{})
	prop := testutil.RandomDenebVersionedProposal()
	slot, err := prop.Slot()
	require.NoError(t, err)
	cp, err := core.NewVersionedProposal(prop)
	require.NoError(t, err)
	require.NoError(t, db.Store(context.Background(), core.NewProposerDuty(uint64(slot)), core.UnsignedDataSet{testutil.RandomCorePubKey(t): cp}))
	a, err := db.AwaitProposal(context.Background(), uint64(slot))
	require.NoError(t, err)
	rootBefore, err := a.Root()
	require.NoError(t, err)
	a.Deneb.Block.ProposerIndex++ // the first reader mutates what it received
	b, err := db.AwaitProposal(context.Background(), uint64(slot))
	require.NoError(t, err)
	require.NotSame(t, a, b, "two readers received the same mutable memory")
	rootAfter, err := b.Root()
	require.NoError(t, err)
	require.Equal(t, rootBefore, rootAfter, "a reader's mutation changed what the next reader observes")
}

func TestReplayC18Attestation(t *testing.T) {
	db := NewMemDB(replayDeadliner18{})
	att := testutil.RandomCoreAttestationData(t)
	slot := uint64(att.Data.Slot)
	require.NoError(t, db.Store(context.Background(), core.NewAttesterDuty(slot), core.UnsignedDataSet{testutil.RandomCorePubKey(t): att}))
	a, err := db.AwaitAttestation(context.Background(), slot, uint64(att.Duty.CommitteeIndex))
	require.NoError(t, err)
	rootBefore, err := a.HashTreeRoot()
	require.NoError(t, err)
	a.Target.Epoch++
	b, err := db.AwaitAttestation(context.Background(), slot, uint64(att.Duty.CommitteeIndex))
	require.NoError(t, err)
	require.NotSame(t, a, b, "two readers received the same mutable memory")
	rootAfter, err := b.HashTreeRoot()
	require.NoError(t, err)
	require.Equal(t, rootBefore, rootAfter, "a reader's mutation changed what the next reader observes")
}

func TestReplayC18SyncContribution(t *testing.T) {
	db := NewMemDB(replayDeadliner18{})
	contrib := testutil.RandomCoreSyncContribution()
	slot := uint64(contrib.Slot)
	require.NoError(t, db.Store(context.Background(), core.NewSyncContributionDuty(slot), core.UnsignedDataSet{testutil.RandomCorePubKey(t): contrib}))
	a, err := db.AwaitSyncContribution(context.Background(), slot, contrib.SubcommitteeIndex, contrib.BeaconBlockRoot)
	require.NoError(t, err)
	rootBefore, err := a.HashTreeRoot()
	require.NoError(t, err)
	a.AggregationBits[0] ^= 0xff
	b, err := db.AwaitSyncContribution(context.Background(), slot, contrib.SubcommitteeIndex, contrib.BeaconBlockRoot)
	require.NoError(t, err)
	require.NotSame(t, a, b, "two readers received the same mutable memory")
	rootAfter, err := b.HashTreeRoot()
	require.NoError(t, err)
	require.Equal(t, rootBefore, rootAfter, "a reader's mutation changed what the next reader observes")
}
