package aggsigdb

// Replay for F-C17b (property C17): MemDBV2.Store returned without notifying when a later entry of the set was
// rejected, although entries stored before it were already visible: a reader blocked on such a key slept on.

import (
	"context"
	"testing"
	"time"

	"github.com/stretchr/testify/require"

	"github.com/obolnetwork/charon/core"
	"github.com/obolnetwork/charon/testutil"
)

type replayDeadliner2 struct{}

func (replayDeadliner2) Add(core.Duty) core.DeadlineStatus { return core.DeadlineScheduled }
func (replayDeadliner2) C() <-chan core.Duty               { return nil }

func TestReplayC17V2PartialStore(t *testing.T) {
	hit := false
	for attempt := 0; attempt < 64 && !hit; attempt++ {
		db := NewMemDBV2(replayDeadliner2{})
		duty := core.NewAttesterDuty(uint64(100 + attempt))
		pkA, pkB := testutil.RandomCorePubKey(t), testutil.RandomCorePubKey(t)
		v1, v2, x := testutil.RandomCoreSignature(), testutil.RandomCoreSignature(), testutil.RandomCoreSignature()
		require.NoError(t, db.Store(context.Background(), duty, core.SignedDataSet{pkB: v1}))

		ctx, cancel := context.WithTimeout(context.Background(), 2*time.Second)
		done := make(chan error, 1)
		go func() {
			_, err := db.Await(ctx, duty, pkA, 0)
			done <- err
		}()
		time.Sleep(50 * time.Millisecond) // the reader is blocked on A now

		// B conflicts with what is stored; A is new. Whether A is stored depends on the map order of the set.
		err := db.Store(context.Background(), duty, core.SignedDataSet{pkA: x, pkB: v2})
		require.Error(t, err)

		probeCtx, probeCancel := context.WithTimeout(context.Background(), 100*time.Millisecond)
		_, probeErr := db.Await(probeCtx, duty, pkA, 0)
		probeCancel()
		if probeErr == nil {
			// A was stored by the partly rejected Store: the reader that was already waiting for it must return.
			hit = true
			require.NoError(t, <-done, "key A is stored but the reader that was already blocked on A was not woken (lost wake-up)")
		}
		cancel()
	}
	require.True(t, hit, "no attempt stored A before rejecting B")
}
