package cluster

// Replay for finding F-C12a: a lock whose builder registration message carries extra trailing zero bytes in
// fee_recipient hashes to the same lock hash (SSZ PutBytes pads to 32 bytes) and -- before the fix -- passed
// VerifyHashes and VerifySignatures, because the registration signature is checked against the definition's
// fee recipient only. The test asserts the property (the altered lock must fail verification).

import (
	"math/rand"
	"testing"
)

func TestReplayC12FeeRecipient(t *testing.T) {
	lock, _, _ := NewForT(t, 1, 2, 3, 1, rand.New(rand.NewSource(1)))
	if err := lock.VerifyHashes(); err != nil {
		t.Fatal(err)
	}
	if err := lock.VerifySignatures(nil); err != nil {
		t.Fatal(err)
	}
	fr := lock.Validators[0].BuilderRegistration.Message.FeeRecipient
	lock.Validators[0].BuilderRegistration.Message.FeeRecipient = append(append([]byte{}, fr...), 0x00)
	errH := lock.VerifyHashes()
	errS := lock.VerifySignatures(nil)
	if errH == nil && errS == nil {
		t.Fatalf("lock with fee_recipient altered from %x to %x passes VerifyHashes and VerifySignatures", fr, lock.Validators[0].BuilderRegistration.Message.FeeRecipient)
	}
	t.Logf("altered lock rejected: hashes=%v signatures=%v", errH, errS)
}
