package aggsigdb

// Replay for F-C17 (property C17): MemDBV2 wakes only one of several blocked readers per Store.

import (
	"context"
	"testing"
	"time"

	"github.com/stretchr/testify/require"

	"github.com/obolnetwork/charon/core"
	"github.com/obolnetwork/charon/testutil"
)

type replayDeadliner struct{}

func (replayDeadliner) Add(core.Duty) core.DeadlineStatus { return core.DeadlineScheduled }
func (replayDeadliner) C() <-chan core.Duty               { return nil }

func TestReplayC17V2LostWakeup(t *testing.T) {
	for run := 0; run < 5; run++ {
		db := NewMemDBV2(replayDeadliner{})
		ctx, cancel := context.WithTimeout(context.Background(), 2*time.Second)
		duty := core.NewAttesterDuty(99)
		pk1, pk2 := testutil.RandomCorePubKey(t), testutil.RandomCorePubKey(t)
		done := make(chan error, 2)
		for _, pk := range []core.PubKey{pk1, pk2} {
			go func(pk core.PubKey) {
				_, err := db.Await(ctx, duty, pk, 0)
				done <- err
			}(pk)
		}
		time.Sleep(100 * time.Millisecond) // both readers are blocked now
		require.NoError(t, db.Store(context.Background(), duty, core.SignedDataSet{
			pk1: testutil.RandomCoreSignature(), pk2: testutil.RandomCoreSignature()}))
		for i := 0; i < 2; i++ {
			require.NoError(t, <-done, "a blocked read did not return although its value has been stored (lost wake-up)")
		}
		cancel()
	}
}
