package dutydb

// Replay for known finding F-C06 (property C06): a second aggregate with the same attestation data
// but other aggregation bits / signature REPLACES the stored one (readers get different signed content).

import (
	"context"
	"testing"

	"github.com/stretchr/testify/require"

	"github.com/obolnetwork/charon/core"
	"github.com/obolnetwork/charon/testutil"
)

type replayDeadliner struct{}

func (replayDeadliner) Add(core.Duty) core.DeadlineStatus { return core.DeadlineScheduled }
func (replayDeadliner) C() <-chan core.Duty               { return nil }

func TestReplayC06AggReplace(t *testing.T) {
	db := NewMemDB(replayDeadliner{})
	agg := testutil.RandomDenebCoreVersionedAggregateAttestation()
	data, err := agg.Data()
	require.NoError(t, err)
	root, err := data.HashTreeRoot()
	require.NoError(t, err)
	commIdx, err := agg.CommitteeIndex()
	require.NoError(t, err)
	duty := core.NewAggregatorDuty(uint64(data.Slot))
	pk := testutil.RandomCorePubKey(t)
	require.NoError(t, db.Store(context.Background(), duty, core.UnsignedDataSet{pk: agg}))
	first, err := db.AwaitAggAttestation(context.Background(), uint64(data.Slot), root, commIdx)
	require.NoError(t, err)
	firstRoot, err := first.HashTreeRoot()
	require.NoError(t, err)

	// same attestation data, different aggregation bits and signature
	c, err := agg.Clone()
	require.NoError(t, err)
	other := c.(core.VersionedAggregatedAttestation)
	other.Deneb.AggregationBits = append([]byte{}, other.Deneb.AggregationBits...)
	other.Deneb.AggregationBits[0] ^= 0x01
	other.Deneb.Signature[0] ^= 0xff
	err = db.Store(context.Background(), duty, core.UnsignedDataSet{pk: other})
	second, err2 := db.AwaitAggAttestation(context.Background(), uint64(data.Slot), root, commIdx)
	require.NoError(t, err2)
	secondRoot, err2 := second.HashTreeRoot()
	require.NoError(t, err2)
	if err == nil {
		require.Equal(t, firstRoot, secondRoot, "conflicting aggregate was accepted and replaced the stored one: later readers get different signed content")
	}
}
