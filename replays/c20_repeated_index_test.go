package eth2wrap_test

// Replay for finding F-C20b (first noticed by a round-9 sub-agent on the unmodified code): once an epoch is cached, a
// request that names a not-yet-requested validator twice ([2 2]) files that validator's duty twice on the amend path
// (the "new indices" list is built per occurrence, and the duties are collected per entry of that list). Every later
// request for validator 2 is then answered with two duties where the beacon node answers one. The test asserts the
// property: the cache answers exactly what the beacon node would answer for the same request.

import (
	"context"
	"testing"

	eth2v1 "github.com/attestantio/go-eth2-client/api/v1"
	eth2p0 "github.com/attestantio/go-eth2-client/spec/phase0"

	"github.com/obolnetwork/charon/app/eth2wrap"
	"github.com/obolnetwork/charon/testutil/beaconmock"
)

func TestReplayC20RepeatedIndexAmend(t *testing.T) {
	ctx := context.Background()
	bmock, err := beaconmock.New(t.Context())
	if err != nil {
		t.Fatal(err)
	}
	// the beacon node answers one duty per DISTINCT requested validator (as real beacon nodes do)
	bmock.AttesterDutiesFunc = func(_ context.Context, _ eth2p0.Epoch, vidxs []eth2p0.ValidatorIndex) ([]*eth2v1.AttesterDuty, error) {
		seen := map[eth2p0.ValidatorIndex]bool{}
		var resp []*eth2v1.AttesterDuty
		for _, v := range vidxs {
			if seen[v] {
				continue
			}
			seen[v] = true
			resp = append(resp, &eth2v1.AttesterDuty{ValidatorIndex: v, Slot: eth2p0.Slot(96 + v)})
		}
		return resp, nil
	}
	c := eth2wrap.NewDutiesCache(bmock, []eth2p0.ValidatorIndex{1, 2, 3})
	if _, err := c.AttesterDutiesCache(ctx, 3, []eth2p0.ValidatorIndex{1}); err != nil { // epoch 3 is now cached for validator 1
		t.Fatal(err)
	}
	if _, err := c.AttesterDutiesCache(ctx, 3, []eth2p0.ValidatorIndex{2, 2}); err != nil { // amend, validator 2 named twice
		t.Fatal(err)
	}
	got, err := c.AttesterDutiesCache(ctx, 3, []eth2p0.ValidatorIndex{2}) // served from the cache
	if err != nil {
		t.Fatal(err)
	}
	want, _ := bmock.AttesterDutiesFunc(ctx, 3, []eth2p0.ValidatorIndex{2})
	if len(got.Duties) != len(want) {
		t.Fatalf("the cache answers %d duties for validator 2, the beacon node answers %d", len(got.Duties), len(want))
	}
}
