package parsigdb

// Replay for finding F-C07c (property C07): for never-expiring ("exempt") duties (voluntary exits, builder
// registrations) the per-share cap evicts a share's oldest partial signature from its entry even after that entry has
// reached the threshold and triggered aggregation. The entry then drops below the threshold, and the next matching share
// makes its length equal to the threshold again: aggregation is triggered a second time for the same duty and validator.
// Needs one share that stores more than maxExemptEntriesPerShare distinct exempt duties for the validator.
// The test asserts the property (exactly one trigger per duty and validator).

import (
	"context"
	"testing"
	"time"

	eth2p0 "github.com/attestantio/go-eth2-client/spec/phase0"
	"github.com/stretchr/testify/require"

	"github.com/obolnetwork/charon/core"
	"github.com/obolnetwork/charon/testutil"
)

type exemptDeadliner struct{}

func (exemptDeadliner) Add(core.Duty) core.DeadlineStatus { return core.DeadlineExempt }
func (exemptDeadliner) C() <-chan core.Duty               { return nil }

func TestReplayC07ExemptEvictionRetrigger(t *testing.T) {
	const threshold = 3
	db := NewMemDB(threshold, exemptDeadliner{}, NewMemDBMetadata(12, time.Unix(1600000000, 0)))
	fired := map[core.Duty]int{}
	db.SubscribeThreshold(func(_ context.Context, d core.Duty, _ map[core.PubKey][]core.ParSignedData) error {
		fired[d]++
		return nil
	})
	pk := testutil.RandomCorePubKey(t)
	exit := func(share int) core.ParSignedData {
		return core.NewPartialSignedVoluntaryExit(&eth2p0.SignedVoluntaryExit{
			Message:   &eth2p0.VoluntaryExit{Epoch: 7, ValidatorIndex: 3},
			Signature: testutil.RandomEth2Signature(),
		}, share)
	}
	ctx := context.Background()
	d := core.NewVoluntaryExit(100)
	for share := 1; share <= 3; share++ {
		require.NoError(t, db.StoreExternal(ctx, d, core.ParSignedDataSet{pk: exit(share)}))
	}
	require.Equal(t, 1, fired[d])
	// share 1 stores exits for other slots of the same validator until its oldest entry (duty d) is evicted
	for i := 1; i <= maxExemptEntriesPerShare; i++ {
		require.NoError(t, db.StoreExternal(ctx, core.NewVoluntaryExit(uint64(100+i)), core.ParSignedDataSet{pk: exit(1)}))
	}
	// share 4's matching partial for d arrives
	require.NoError(t, db.StoreExternal(ctx, d, core.ParSignedDataSet{pk: exit(4)}))
	require.Equal(t, 1, fired[d], "aggregation triggered twice for one duty and validator")
}
