package qbft

// Replay for finding F-C05: the hash under which a consensus value is filed (and which the proposer signs) covers the
// deterministic re-marshal of the UNPACKED inner message only, not the type URL of the anypb.Any that carries it.
// Keeping the value bytes and changing the type URL to another registered message whose fields do not match (the bytes
// become unknown fields and re-marshal identically) yields a different value with the same hash: valuesByHash files it
// under the genuine hash, so a message carrying it passes the "values hash to the hashes referencing them" check, and a
// decision can deliver something that is not the proposed data. The test asserts the property (an altered value is not
// accepted under the hash of the original).

import (
	"testing"

	"google.golang.org/protobuf/types/known/anypb"

	"github.com/obolnetwork/charon/core"
	pbv1 "github.com/obolnetwork/charon/core/corepb/v1"
	"github.com/obolnetwork/charon/testutil"
)

func TestReplayC05AnyTypeURL(t *testing.T) {
	set := core.UnsignedDataSet{testutil.RandomCorePubKey(t): testutil.RandomCoreAttestationData(t)}
	pb, err := core.UnsignedDataSetToProto(set)
	if err != nil {
		t.Fatal(err)
	}
	genuine, err := anypb.New(pb)
	if err != nil {
		t.Fatal(err)
	}
	good, err := valuesByHash([]*anypb.Any{genuine})
	if err != nil || len(good) != 1 {
		t.Fatalf("genuine value: %v", err)
	}
	var hash [32]byte
	for h := range good {
		hash = h
	}
	dutyURL, err := anypb.New(&pbv1.Duty{})
	if err != nil {
		t.Fatal(err)
	}
	forged := &anypb.Any{TypeUrl: dutyURL.TypeUrl, Value: genuine.Value}
	bad, err := valuesByHash([]*anypb.Any{forged})
	if err != nil {
		return // rejected: fine
	}
	if v, ok := bad[hash]; ok {
		inner, _ := v.UnmarshalNew()
		t.Errorf("a value with an altered type URL (%s, decodes to %T) is filed under the hash of the genuine value (%s)", v.TypeUrl, inner, genuine.TypeUrl)
	}
}
