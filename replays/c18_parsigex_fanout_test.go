package parsigex

// Replay for finding F-C18b (property C18): the partial-signature exchange hands the SAME decoded set to every
// subscriber (every other component clones per subscriber: parsigdb, sigagg, fetcher, scheduler, validatorapi). With two
// subscribers, what the first one does to the set it received (here: overwriting a signature byte, and replacing a map
// entry) is what the second one observes. The test asserts the property (each subscriber sees the received data).

import (
	"context"
	"testing"

	"github.com/libp2p/go-libp2p/core/peer"
	"github.com/stretchr/testify/require"

	"github.com/obolnetwork/charon/core"
	pbv1 "github.com/obolnetwork/charon/core/corepb/v1"
	"github.com/obolnetwork/charon/testutil"
)

func TestReplayC18ParSigExFanOut(t *testing.T) {
	pk := testutil.RandomCorePubKey(t)
	duty := core.NewRandaoDuty(123)
	sent := core.ParSignedDataSet{pk: core.NewPartialSignedRandao(5, testutil.RandomEth2Signature(), 1)}
	pb, err := core.ParSignedDataSetToProto(sent)
	require.NoError(t, err)

	ex := &ParSigEx{
		verifyFunc: func(context.Context, peer.ID, core.Duty, core.PubKey, core.ParSignedData) error { return nil },
		gaterFunc:  func(core.Duty) bool { return true },
	}
	var second core.ParSignedDataSet
	ex.Subscribe(func(_ context.Context, _ core.Duty, set core.ParSignedDataSet) error {
		// the first subscriber owns what it was handed
		d := set[pk]
		randao := d.SignedData.(core.SignedRandao)
		randao.SignedEpoch.Signature[0] ^= 0xff
		set[testutil.RandomCorePubKey(t)] = d
		return nil
	})
	ex.Subscribe(func(_ context.Context, _ core.Duty, set core.ParSignedDataSet) error {
		second = set
		return nil
	})
	_, _, err = ex.handle(context.Background(), "", &pbv1.ParSigExMsg{Duty: core.DutyToProto(duty), DataSet: pb})
	require.NoError(t, err)
	require.Len(t, second, 1, "the second subscriber sees an entry the first subscriber added to its own set")
	require.Equal(t, sent[pk].Signature(), second[pk].Signature(), "the second subscriber sees a signature the first subscriber changed")
}
