package core

// Replay for known finding F-C16 (property C16): more than 10 duties expiring back-to-back while the
// consumer is not reading overflow the output buffer; the surplus duties are dropped for good
// (never reported, even to a consumer that afterwards keeps reading).

import (
	"context"
	"testing"
	"time"

	"github.com/jonboulle/clockwork"
	"github.com/stretchr/testify/require"
)

func TestReplayC16Overflow(t *testing.T) {
	ctx, cancel := context.WithCancel(context.Background())
	defer cancel()
	clock := clockwork.NewFakeClock()
	start := clock.Now()
	deadlineFunc := func(d Duty) (time.Time, bool) { return start.Add(time.Duration(d.Slot) * time.Second), true }
	dl := newDeadliner(ctx, "replay", deadlineFunc, clock)
	const n = 14
	for i := 1; i <= n; i++ {
		require.Equal(t, DeadlineScheduled, dl.Add(NewAttesterDuty(uint64(i))))
	}
	// let all deadlines pass one after the other while nobody reads C()
	for i := 0; i < n+2; i++ {
		clock.Advance(time.Second)
		time.Sleep(20 * time.Millisecond)
	}
	// now a consumer that keeps reading
	got := map[uint64]bool{}
	for {
		select {
		case d := <-dl.C():
			got[d.Slot] = true
			continue
		case <-time.After(300 * time.Millisecond):
		}
		break
	}
	require.Len(t, got, n, "duties registered before their deadline were never reported: %d of %d delivered", len(got), n)
}
