package core_test

// Replay for finding F-C14d: a VersionedAttestation without validator index (what a pre-Electra validator client
// submits, and what peers on charon v1.3.0-v1.4.1 send) whose slot is 20 modulo 2^32 cannot be cloned or decoded:
// its legacy-layout encoding has the low 32 bits of the slot where the current layout has its offset field (20), so
// UnmarshalSSZ takes the current-layout branch, the inner decode fails with an error that is not ssz.ErrOffset and the
// legacy fallback never runs. Slots 19 and 21 work. The test asserts the property (clone equals original; the bytes
// the node itself produced decode again).

import (
	"testing"

	eth2spec "github.com/attestantio/go-eth2-client/spec"
	eth2p0 "github.com/attestantio/go-eth2-client/spec/phase0"

	"github.com/obolnetwork/charon/core"
	"github.com/obolnetwork/charon/testutil"
)

func TestReplayC14AttestationSlot20(t *testing.T) {
	for _, slot := range []eth2p0.Slot{19, 20, 21, 20 + (1 << 32)} {
		att := testutil.RandomPhase0Attestation()
		att.Data.Slot = slot
		va, err := core.NewVersionedAttestation(&eth2spec.VersionedAttestation{Version: eth2spec.DataVersionDeneb, Deneb: att})
		if err != nil {
			t.Fatalf("slot %d: constructor: %v", slot, err)
		}
		clone, err := va.Clone()
		if err != nil {
			t.Errorf("slot %d: Clone of a valid attestation without validator index fails: %v", slot, err)
			continue
		}
		r1, err1 := va.MessageRoot()
		r2, err2 := clone.(core.VersionedAttestation).MessageRoot()
		if err1 != nil || err2 != nil || r1 != r2 {
			t.Errorf("slot %d: clone differs from original", slot)
		}
		b, err := va.MarshalSSZ()
		if err != nil {
			t.Fatalf("slot %d: marshal: %v", slot, err)
		}
		var back core.VersionedAttestation
		if err := back.UnmarshalSSZ(b); err != nil {
			t.Errorf("slot %d: the node's own encoding does not decode: %v", slot, err)
		}
	}
}
