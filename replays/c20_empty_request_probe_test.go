package eth2wrap_test

// Probe (not a recorded finding): with no active validators known (start-up) a request WITHOUT indices makes the beacon node
// answer every proposer of the epoch, cached under "no index requested"; a later explicit request for one of those
// validators is then answered with the cached duty plus the freshly fetched one. C20 speaks of requests with an explicit
// index set, and the first request of this sequence is not one, so this is kept as an observation (DESIGN section 6).

import (
	"context"
	"testing"

	eth2v1 "github.com/attestantio/go-eth2-client/api/v1"
	eth2p0 "github.com/attestantio/go-eth2-client/spec/phase0"

	"github.com/obolnetwork/charon/app/eth2wrap"
	"github.com/obolnetwork/charon/testutil/beaconmock"
)

func TestProbeC20EmptyActiveList(t *testing.T) {
	ctx := context.Background()
	bmock, err := beaconmock.New(t.Context())
	if err != nil {
		t.Fatal(err)
	}
	// the beacon node answers all proposers of the epoch when no index is given, else the requested ones
	all := []eth2p0.ValidatorIndex{7, 8, 9}
	bmock.ProposerDutiesFunc = func(_ context.Context, _ eth2p0.Epoch, vidxs []eth2p0.ValidatorIndex) ([]*eth2v1.ProposerDuty, error) {
		if len(vidxs) == 0 {
			vidxs = all
		}
		var resp []*eth2v1.ProposerDuty
		for _, v := range vidxs {
			resp = append(resp, &eth2v1.ProposerDuty{ValidatorIndex: v, Slot: eth2p0.Slot(96 + v)})
		}
		return resp, nil
	}
	c := eth2wrap.NewDutiesCache(bmock, nil) // start-up: no active validators known yet
	if _, err := c.ProposerDutiesCache(ctx, 3, nil); err != nil {
		t.Fatal(err)
	}
	got, err := c.ProposerDutiesCache(ctx, 3, []eth2p0.ValidatorIndex{8})
	if err != nil {
		t.Fatal(err)
	}
	want, _ := bmock.ProposerDutiesFunc(ctx, 3, []eth2p0.ValidatorIndex{8})
	if len(got.Duties) != len(want) {
		t.Fatalf("the cache answers %d duties for validator 8, the beacon node answers %d", len(got.Duties), len(want))
	}
}
