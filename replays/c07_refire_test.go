package parsigdb

// Replay for F-C07a / F-C07b (property C07), run in-package through `go test -overlay`.

import (
	"context"
	"testing"
	"time"

	"github.com/stretchr/testify/require"

	"github.com/obolnetwork/charon/core"
	"github.com/obolnetwork/charon/testutil"
)

type replayDeadliner struct{}

func (replayDeadliner) Add(core.Duty) core.DeadlineStatus { return core.DeadlineScheduled }
func (replayDeadliner) C() <-chan core.Duty               { return nil }

// F-C07a: a group that reached the threshold earlier fires again when a later share with another root is accepted.
func TestReplayC07Refire(t *testing.T) {
	const threshold = 3
	db := NewMemDB(threshold, replayDeadliner{}, NewMemDBMetadata(12, time.Unix(1600000000, 0)))
	var fired int
	db.SubscribeThreshold(func(context.Context, core.Duty, map[core.PubKey][]core.ParSignedData) error {
		fired++
		return nil
	})
	duty := core.NewRandaoDuty(123)
	pk := testutil.RandomCorePubKey(t)
	sig := testutil.RandomEth2Signature()
	for share := 1; share <= 3; share++ {
		require.NoError(t, db.StoreExternal(context.Background(), duty, core.ParSignedDataSet{pk: core.NewPartialSignedRandao(5, sig, share)}))
	}
	require.Equal(t, 1, fired)
	// share 4 signs a different root (epoch 6): accepted, must not re-trigger the old group
	require.NoError(t, db.StoreExternal(context.Background(), duty, core.ParSignedDataSet{pk: core.NewPartialSignedRandao(6, sig, 4)}))
	require.Equal(t, 1, fired, "aggregation triggered twice for one duty and validator")
}

// F-C07b: a rejected entry of a batch must not prevent the trigger for another validator of the same batch.
func TestReplayC07Batch(t *testing.T) {
	const threshold = 2
	lost := 0
	for run := 0; run < 40; run++ {
		db := NewMemDB(threshold, replayDeadliner{}, NewMemDBMetadata(12, time.Unix(1600000000, 0)))
		fired := map[core.PubKey]int{}
		db.SubscribeThreshold(func(_ context.Context, _ core.Duty, set map[core.PubKey][]core.ParSignedData) error {
			for pk := range set {
				fired[pk]++
			}
			return nil
		})
		duty := core.NewRandaoDuty(123)
		a, b := testutil.RandomCorePubKey(t), testutil.RandomCorePubKey(t)
		sig := testutil.RandomEth2Signature()
		require.NoError(t, db.StoreExternal(context.Background(), duty, core.ParSignedDataSet{
			a: core.NewPartialSignedRandao(5, sig, 1), b: core.NewPartialSignedRandao(5, sig, 1)}))
		// batch: A's share 2 reaches threshold; B's share 1 equivocates (different epoch) and is rejected
		err := db.StoreExternal(context.Background(), duty, core.ParSignedDataSet{
			a: core.NewPartialSignedRandao(5, sig, 2), b: core.NewPartialSignedRandao(6, sig, 1)})
		require.Error(t, err)
		// A's third share arrives later: group is now above threshold, no trigger any more
		_ = db.StoreExternal(context.Background(), duty, core.ParSignedDataSet{a: core.NewPartialSignedRandao(5, sig, 3)})
		if fired[a] != 1 {
			lost++
		}
	}
	require.Zero(t, lost, "validator A reached threshold in a batch but was never (or not exactly once) triggered in %d of 40 runs", lost)
}
