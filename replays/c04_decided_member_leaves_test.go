package qbft

// Replay for finding F-C04b (property C04): in the production wiring a member that has decided LEAVES its consensus
// instance (runInstance's decide callback cancels the instance context: "qbft.Run() is stopped by cancelling the
// context"), so it never answers a later ROUND-CHANGE with DECIDED, which is the mechanism the protocol relies on to let
// a lagging member catch up. With at most f crashed members, start offsets below one round and every latency below a
// third of the shortest round timeout, a running member can therefore be left without a quorum for ever.
//
// Schedule (n=4, quorum 3, increasing round timer, round 1 lasts 1s): member 3 is crashed from the start; members 0
// (leader of round 1) and 2 start at t=0, member 1 starts 750ms late; every message takes 5ms, except COMMITs from member
// 0 to member 2, which take 300ms. Members 0 and 1 collect three COMMITs at about 0.76s, decide and leave. Member 2 has
// the COMMITs of 1 and of itself; the third one (from 0) arrives at about 1.06s, after its round-1 timer (1.0s) fired. It
// is then alone: it sends ROUND-CHANGEs for rounds 2, 3, ... and nobody answers.
//
// The harness mirrors runInstance with the libp2p broadcaster replaced by in-memory FIFO links (adapted from the
// demonstration of seeded change C04-r8): production newDefinition, transport, Consensus.handle and qbft.Run; the decide
// callback does what runInstance's does (it cancels the member's instance context). With leaveOnDecide=false (decided
// members keep running, as core/qbft.Run is written to allow) the same schedule lets member 2 decide.
// The test asserts the property: every running member decides within one leader rotation.

import (
	"context"
	"fmt"
	"sync"
	"testing"
	"time"

	k1 "github.com/decred/dcrd/dcrec/secp256k1/v4"
	"github.com/stretchr/testify/require"
	"google.golang.org/protobuf/proto"

	"github.com/obolnetwork/charon/core"
	"github.com/obolnetwork/charon/core/consensus/instance"
	"github.com/obolnetwork/charon/core/consensus/timer"
	pbv1 "github.com/obolnetwork/charon/core/corepb/v1"
	"github.com/obolnetwork/charon/core/qbft"
	"github.com/obolnetwork/charon/testutil"
)

const replayC04Nodes = 4

type replayC04Result struct {
	decidedRound map[int64]int64
	decidedValue map[int64][32]byte
	rejected     []string
}

type replayC04Deadliner struct{}

func (replayC04Deadliner) Add(core.Duty) core.DeadlineStatus { return core.DeadlineScheduled }

func (replayC04Deadliner) C() <-chan core.Duty { return nil }

func TestReplayC04DecidedMembersLeave(t *testing.T) {
	// control: decided members keep running -> the lagging member catches up
	ctl := runReplayC04(t, 100, false)
	require.Lenf(t, ctl.decidedRound, 3, "control run (decided members keep running): %v", ctl.decidedRound)

	res := runReplayC04(t, 100, true)
	require.Lenf(t, res.decidedRound, 3,
		"production wiring (a decided member leaves its instance): not every running member decided within one leader rotation (decided rounds by member: %v)",
		res.decidedRound)
}

type replayC04Packet struct {
	at  time.Time
	msg *pbv1.QBFTConsensusMsg
}

// replayC04Broadcaster delivers wire messages to the other members' Consensus.handle
// over FIFO links with a fixed per-link latency.
type replayC04Broadcaster struct {
	from  int
	links map[int]chan replayC04Packet
	delay func(from, to int, msg *pbv1.QBFTConsensusMsg) time.Duration
}

func (b replayC04Broadcaster) Broadcast(_ context.Context, msg *pbv1.QBFTConsensusMsg) error {
	for to, link := range b.links {
		clone, ok := proto.Clone(msg).(*pbv1.QBFTConsensusMsg)
		if !ok {
			panic("clone")
		}

		link <- replayC04Packet{at: time.Now().Add(b.delay(b.from, to, msg)), msg: clone}
	}

	return nil
}

func runReplayC04(t *testing.T, slotSeed uint64, leaveOnDecide bool) replayC04Result {
	t.Helper()

	const (
		n         = replayC04Nodes
		lateStart = 750 * time.Millisecond // < one round
		slowLink  = 300 * time.Millisecond // < 1/3 of the shortest round timeout (1s).
		fastLink  = 5 * time.Millisecond
		// One full leader rotation after round 1 with the increasing round timer:
		// rounds 1..5 last 1s+1.25s+1.5s+1.75s+2s = 7.5s.
		deadline = 9 * time.Second
	)

	// Pick a duty for which member 0 leads round 1 (so 1 leads round 2, 2 round 3, 3 round 4).
	duty := core.Duty{Type: core.DutyAttester, Slot: slotSeed}
	for leader(duty, 1, n) != 0 {
		duty.Slot++
	}

	ctx, cancel := context.WithCancel(context.Background())

	var (
		wg         sync.WaitGroup
		mu         sync.Mutex
		result     = replayC04Result{decidedRound: make(map[int64]int64), decidedValue: make(map[int64][32]byte)}
		allDecided = make(chan struct{})
		privkeys   []*k1.PrivateKey
		pubkeys    = make(map[int64]*k1.PublicKey)
		members    []*Consensus
	)

	defer func() {
		cancel()
		wg.Wait()
	}()

	for i := range n {
		key, err := k1.GeneratePrivateKey()
		require.NoError(t, err)

		privkeys = append(privkeys, key)
		pubkeys[int64(i)] = key.PubKey()
	}

	for range n {
		c := &Consensus{
			pubkeys:   pubkeys,
			deadliner: replayC04Deadliner{},
			gaterFunc: func(core.Duty) bool { return true },
		}
		c.mutable.instances = make(map[core.Duty]*instance.IO[Msg])
		members = append(members, c)
	}

	delay := func(from, to int, msg *pbv1.QBFTConsensusMsg) time.Duration {
		if from == 0 && to == 2 && qbft.MsgType(msg.GetMsg().GetType()) == qbft.MsgCommit {
			return slowLink
		}

		return fastLink
	}

	// Network links: one FIFO queue and delivery goroutine per ordered pair of members.
	broadcasters := make([]replayC04Broadcaster, n)
	for from := range n {
		broadcasters[from] = replayC04Broadcaster{from: from, links: make(map[int]chan replayC04Packet), delay: delay}

		for to := range n {
			if from == to {
				continue
			}

			link := make(chan replayC04Packet, 10000)
			broadcasters[from].links[to] = link

			wg.Add(1)

			go func(to int) {
				defer wg.Done()

				for {
					select {
					case <-ctx.Done():
						return
					case pkt := <-link:
						select {
						case <-ctx.Done():
							return
						case <-time.After(time.Until(pkt.at)):
						}

						// The receive path of the production component.
						if _, _, err := members[to].handle(ctx, "", pkt.msg); err != nil && ctx.Err() == nil {
							mu.Lock()
							result.rejected = append(result.rejected, fmt.Sprintf("%s@%d of member %d rejected by member %d: %v",
								qbft.MsgType(pkt.msg.GetMsg().GetType()), pkt.msg.GetMsg().GetRound(),
								pkt.msg.GetMsg().GetPeerIdx(), to, err))
							mu.Unlock()
						}
					}
				}
			}(to)
		}
	}

	// runMember mirrors Consensus.runInstance with the libp2p broadcaster replaced.
	runMember := func(idx int64) {
		defer wg.Done()

		c := members[idx]
		inst := c.getInstanceIO(duty)

		// The member's own proposal, available from the start.
		value, err := core.UnsignedDataSetToProto(core.UnsignedDataSet{
			testutil.RandomCorePubKey(t): testutil.RandomCoreAttestationData(t),
		})
		if err != nil {
			panic(err)
		}

		hash, err := hashProto(value)
		if err != nil {
			panic(err)
		}

		inst.ValueCh <- instance.ValueWithHash{Hash: hash, Value: value}
		inst.HashCh <- hash

		var decidedRound int64

		subs := func() []subscriber {
			return []subscriber{func(_ context.Context, _ core.Duty, decided proto.Message) error {
				decidedHash, err := hashProto(decided)
				if err != nil {
					return err
				}

				mu.Lock()
				defer mu.Unlock()

				result.decidedRound[idx] = decidedRound
				result.decidedValue[idx] = decidedHash

				if len(result.decidedRound) == n-1 {
					close(allDecided)
				}

				return nil
			}}
		}

		// runInstance: ctx, cancel := context.WithCancel(ctx); the decide callback ends with cancel().
		mctx, mcancel := context.WithCancel(ctx)
		defer mcancel()

		def := newDefinition(n, subs, timer.NewIncreasingRoundTimer(), func(round int64) {
			decidedRound = round

			if leaveOnDecide {
				mcancel()
			}
		}, false)

		tr := newTransport(broadcasters[idx], privkeys[idx], inst.ValueCh,
			make(chan qbft.Msg[core.Duty, [32]byte, proto.Message]), newSniffer(n, idx))

		wg.Add(1)

		go func() {
			defer wg.Done()

			tr.ProcessReceives(mctx, c.getRecvBuffer(duty))
		}()

		qt := qbft.Transport[core.Duty, [32]byte, proto.Message]{
			Broadcast: tr.Broadcast,
			Receive:   tr.RecvBuffer(),
		}

		err = qbft.Run(mctx, def, qt, duty, idx, inst.HashCh, inst.VerifyCh)
		if err != nil && mctx.Err() == nil {
			mu.Lock()
			result.rejected = append(result.rejected, "member stopped running: "+err.Error())
			mu.Unlock()
		}
	}

	for idx := range int64(n - 1) { // member 3 is crashed from the start
		wg.Add(1)

		go func() {
			if idx == 1 { // member 1 starts late (less than one round)
				select {
				case <-ctx.Done():
					wg.Done()
					return
				case <-time.After(lateStart):
				}
			}

			runMember(idx)
		}()
	}

	select {
	case <-allDecided:
	case <-time.After(deadline):
	}

	cancel()
	wg.Wait()

	mu.Lock()
	defer mu.Unlock()

	return result
}
