package sigagg_test

// Replay for finding F-C09 (property C09): the aggregator collapses the supplied partial signatures into a map keyed by
// share index (the last one wins) and only requires the number of DISTINCT indices to reach the threshold. So a call
// whose partials repeat a share, or contain an invalid partial that a later valid partial of the same index overwrites,
// still publishes (the published signature is valid). The property says that nothing at all is published for such a call.
// In charon's wiring the partial-signature store never hands out repeated shares; the aggregator itself does not refuse them.

import (
	"context"
	"testing"

	"github.com/stretchr/testify/require"

	"github.com/obolnetwork/charon/core"
	"github.com/obolnetwork/charon/core/sigagg"
	"github.com/obolnetwork/charon/eth2util/signing"
	"github.com/obolnetwork/charon/tbls"
	"github.com/obolnetwork/charon/tbls/tblsconv"
	"github.com/obolnetwork/charon/testutil"
	"github.com/obolnetwork/charon/testutil/beaconmock"
)

func TestReplayC09RepeatedShare(t *testing.T) {
	ctx := context.Background()
	const threshold, peers = 3, 4

	att := testutil.RandomDenebCoreVersionedAttestation()
	msgRoot, err := att.MessageRoot()
	require.NoError(t, err)
	bmock, err := beaconmock.New(t.Context())
	require.NoError(t, err)
	epoch, err := att.Epoch(ctx, bmock)
	require.NoError(t, err)
	msg, err := signing.GetDataRoot(ctx, bmock, att.DomainName(), epoch, msgRoot)
	require.NoError(t, err)

	secretKey, err := tbls.GenerateSecretKey()
	require.NoError(t, err)
	pubKey, err := tbls.SecretToPublicKey(secretKey)
	require.NoError(t, err)
	secrets, err := tbls.ThresholdSplit(secretKey, peers, threshold)
	require.NoError(t, err)

	partial := func(idx int, valid bool) core.ParSignedData {
		m := msg[:]
		if !valid {
			m = make([]byte, 32) // a signature over something else
		}
		sig, err := tbls.Sign(secrets[idx], m)
		require.NoError(t, err)
		signed, err := att.SetSignature(tblsconv.SigToCore(sig))
		require.NoError(t, err)
		return core.ParSignedData{SignedData: signed, ShareIdx: idx}
	}

	for name, parsigs := range map[string][]core.ParSignedData{
		"share 3 repeated":                         {partial(1, true), partial(2, true), partial(3, true), partial(3, true)},
		"invalid partial of share 1, then a valid": {partial(1, false), partial(1, true), partial(2, true), partial(3, true)},
	} {
		agg, err := sigagg.New(threshold, sigagg.NewVerifier(bmock))
		require.NoError(t, err)
		published := 0
		agg.Subscribe(func(context.Context, core.Duty, core.SignedDataSet) error { published++; return nil })
		err = agg.Aggregate(ctx, core.NewAttesterDuty(1), map[core.PubKey][]core.ParSignedData{core.PubKeyFrom48Bytes(pubKey): parsigs})
		if err == nil || published != 0 {
			t.Errorf("%s: the aggregator published (err=%v, published=%d) although the supplied partials repeat a share / contain an invalid share", name, err, published)
		}
	}
}
