package core_test

// Replay for finding F-C14e (first noticed by a round-9 sub-agent on the unmodified code): the unsigned duty data of a
// proposer or aggregator duty whose inner object is JSON null decodes without error (UnsignedDataSetFromProto), but the
// decoded value cannot be encoded again: MarshalJSON dereferences the nil payload and panics. The property demands that
// decoding either fails or yields a value every consumer operation handles.

import (
	"encoding/json"
	"testing"

	"github.com/obolnetwork/charon/core"
	pbv1 "github.com/obolnetwork/charon/core/corepb/v1"
)

func TestReplayC14UnsignedNullPayload(t *testing.T) {
	for name, tc := range map[string]struct {
		typ  core.DutyType
		data string
	}{
		"proposer":   {core.DutyProposer, `{"version":2,"block":null}`},
		"aggregator": {core.DutyAggregator, `{"version":0,"validator_index":null,"attestation":null}`},
	} {
		t.Run(name, func(t *testing.T) {
			set, err := core.UnsignedDataSetFromProto(tc.typ, &pbv1.UnsignedDataSet{Set: map[string][]byte{"0x" + string(make48()): []byte(tc.data)}})
			if err != nil {
				return // rejected at decode time: fine
			}
			for _, v := range set {
				func() {
					defer func() {
						if r := recover(); r != nil {
							t.Fatalf("decoded without error, but encoding the decoded value panics: %v", r)
						}
					}()
					_, _ = json.Marshal(v)
				}()
			}
		})
	}
}

func make48() []byte {
	b := make([]byte, 96)
	for i := range b {
		b[i] = 'a'
	}
	return b
}
