package bcast

// Replay for known finding F-C13 (property C13): the signed hash does not bind the requesting sender,
// so a member can relay another member's fully signed message under its own identity: two members
// then deliver different payloads for the same (sender, message id).

import (
	"context"
	"sync"
	"testing"
	"time"

	k1 "github.com/decred/dcrd/dcrec/secp256k1/v4"
	"github.com/libp2p/go-libp2p/core/host"
	"github.com/libp2p/go-libp2p/core/peer"
	"github.com/libp2p/go-libp2p/core/peerstore"
	"github.com/stretchr/testify/require"
	"google.golang.org/protobuf/proto"
	"google.golang.org/protobuf/types/known/anypb"
	"google.golang.org/protobuf/types/known/timestamppb"

	pb "github.com/obolnetwork/charon/dkg/dkgpb/v1"
	"github.com/obolnetwork/charon/p2p"
	"github.com/obolnetwork/charon/testutil"
)

func TestReplayC13Relay(t *testing.T) {
	const n = 3
	ctx := context.Background()
	var (
		secrets []*k1.PrivateKey
		nodes   []host.Host
		peers   []peer.ID
		comps   []*Component
	)
	for range n {
		secret, err := k1.GeneratePrivateKey()
		require.NoError(t, err)
		secrets = append(secrets, secret)
		node := testutil.CreateHostWithIdentity(t, testutil.AvailableAddr(t), secret)
		nodes = append(nodes, node)
		peers = append(peers, node.ID())
	}
	for i := range n {
		for j := range n {
			nodes[i].Peerstore().AddAddrs(nodes[j].ID(), nodes[j].Addrs(), peerstore.PermanentAddrTTL)
		}
	}
	type delivery struct {
		target int
		sender peer.ID
		secs   int64
	}
	var mu sync.Mutex
	var got []delivery
	for i := range n {
		c := New(nodes[i], peers, secrets[i], []byte("session"))
		c.RegisterMessageIDFuncs("id", func(_ context.Context, p peer.ID, _ string, m proto.Message) error {
			mu.Lock()
			defer mu.Unlock()
			got = append(got, delivery{i, p, m.(*timestamppb.Timestamp).GetSeconds()})
			return nil
		}, func(context.Context, peer.ID, *anypb.Any) error { return nil })
		comps = append(comps, c)
	}
	// member 0 records the fully signed message it receives from member 1
	var recorded *pb.BCastMessage
	orig := comps[0].srv.verifyFunc
	comps[0].srv.verifyFunc = func(id string, a *anypb.Any, sigs [][]byte) error {
		recorded = &pb.BCastMessage{Id: id, Message: a, Signatures: sigs}
		return orig(id, a, sigs)
	}
	require.NoError(t, comps[1].Broadcast(ctx, "id", &timestamppb.Timestamp{Seconds: 111})) // member 1: (id, Q=111)
	require.Eventually(t, func() bool { return recorded != nil }, 2*time.Second, 10*time.Millisecond)
	require.NoError(t, comps[0].Broadcast(ctx, "id", &timestamppb.Timestamp{Seconds: 999})) // member 0: (id, P=999)
	// member 0 relays member 1's signed (id, Q) to member 2 under its own identity
	require.NoError(t, p2p.Send(ctx, nodes[0], protocolIDMsg, peers[2], recorded))
	time.Sleep(300 * time.Millisecond)
	mu.Lock()
	defer mu.Unlock()
	payloadsFrom0 := map[int64]bool{}
	for _, d := range got {
		if d.sender == peers[0] {
			payloadsFrom0[d.secs] = true
		}
	}
	require.Len(t, payloadsFrom0, 1, "members delivered different payloads for the same sender and message id: %v", payloadsFrom0)
}
