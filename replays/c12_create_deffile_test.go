package cmd

// Replay for finding F-C12b: `create cluster --definition-file` with a valid, signed definition whose operators carry
// addresses (and a signed creator) succeeds but writes a cluster-lock.json that fails Lock.VerifyHashes ("invalid lock
// hash") and Lock.VerifySignatures: runCreateCluster replaces def.Operators with address-less, ENR-only operators
// without recomputing ConfigHash; lock hash and aggregate signature are computed over the stale config hash, while
// Definition.MarshalJSON recomputes config_hash for the file. The repository's tests only use definitions whose operator
// and creator addresses are empty. The test asserts the property (the written lock verifies).

import (
	"context"
	"encoding/json"
	"io"
	"math/rand"
	"os"
	"path/filepath"
	"testing"

	"github.com/obolnetwork/charon/cluster"
	"github.com/obolnetwork/charon/testutil"
)

func TestReplayC12CreateFromSignedDefinition(t *testing.T) {
	lock0, _, _ := cluster.NewForT(t, 2, 3, 4, 1, rand.New(rand.NewSource(1)), cluster.WithLegacyVAddrs(testutil.RandomChecksummedETHAddress(t, 1), testutil.RandomChecksummedETHAddress(t, 2)))
	def := lock0.Definition
	if def.Operators[0].Address == "" || len(def.Creator.ConfigSignature) == 0 {
		t.Skip("fixture has no operator addresses")
	}
	if err := def.VerifyHashes(); err != nil {
		t.Fatalf("fixture definition: %v", err)
	}
	if err := def.VerifySignatures(nil); err != nil {
		t.Fatalf("fixture definition signatures: %v", err)
	}
	b, err := json.Marshal(def)
	if err != nil {
		t.Fatal(err)
	}
	defPath := filepath.Join(t.TempDir(), "cluster-definition.json")
	if err := os.WriteFile(defPath, b, 0o600); err != nil {
		t.Fatal(err)
	}
	dir := t.TempDir()
	if err := runCreateCluster(context.Background(), io.Discard, clusterConfig{DefFile: defPath, ClusterDir: dir, InsecureKeys: true, Network: "goerli"}); err != nil {
		t.Fatalf("create cluster from a valid signed definition: %v", err)
	}
	lb, err := os.ReadFile(filepath.Join(nodeDir(dir, 0), "cluster-lock.json"))
	if err != nil {
		t.Fatal(err)
	}
	var lock cluster.Lock
	if err := json.Unmarshal(lb, &lock); err != nil {
		t.Fatalf("decode written lock: %v", err)
	}
	if err := lock.VerifyHashes(); err != nil {
		t.Errorf("lock written by create cluster fails VerifyHashes: %v", err)
	}
	if err := lock.VerifySignatures(nil); err != nil {
		t.Errorf("lock written by create cluster fails VerifySignatures: %v", err)
	}
}
