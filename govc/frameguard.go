package main

import (
	"go/ast"
	"go/types"
	"strings"

	"golang.org/x/tools/go/packages"
)

// A callee used through its contract changes, in the caller's state, exactly what its `assigns` clause lists. A callee
// WITHOUT an assigns clause is treated as changing nothing -- which is only sound if its body really writes no heap
// location of this module. writesHeap decides that syntactically and conservatively (assignments, ++/--, delete/clear/
// copy through a pointer to a module struct, directly or in same-package callees up to depth 3); a contract call to such
// a callee without an assigns clause is refused (cannot-generate), so a missing frame can no longer make the callee's
// postconditions contradict the caller's unchanged heap and silently turn the rest of the caller into dead code
// (found with seeded change C03-r7: getInstanceIO / deleteInstanceIO without assigns made runInstance vacuous).
func (E *Engine) writesHeap(fn *types.Func, depth int, seen map[*types.Func]bool) (bool, string) {
	if fn == nil || seen[fn] || depth > 3 {
		return false, ""
	}
	seen[fn] = true
	decl := E.declOf(fn)
	p := E.pkgOf(fn)
	if decl == nil || decl.Body == nil || p == nil {
		return false, ""
	}
	info := p.TypesInfo
	throughPtr := func(e ast.Expr) bool {
		for {
			switch x := ast.Unparen(e).(type) {
			case *ast.SelectorExpr:
				if tv, ok := info.Types[x.X]; ok && tv.Type != nil {
					if _, _, isPtr := ptrStruct(tv.Type); isPtr {
						return true
					}
				}
				e = x.X
			case *ast.IndexExpr:
				e = x.X
			case *ast.SliceExpr:
				e = x.X
			case *ast.StarExpr:
				if tv, ok := info.Types[x.X]; ok && tv.Type != nil {
					if _, _, isPtr := ptrStruct(tv.Type); isPtr {
						return true
					}
				}
				e = x.X
			default:
				return false
			}
		}
	}
	found, why := false, ""
	ast.Inspect(decl.Body, func(n ast.Node) bool {
		if found {
			return false
		}
		switch x := n.(type) {
		case *ast.FuncLit:
			return true
		case *ast.AssignStmt:
			for _, l := range x.Lhs {
				if throughPtr(l) {
					found, why = true, fn.Name()+": "+exprStr(l)
				}
			}
		case *ast.IncDecStmt:
			if throughPtr(x.X) {
				found, why = true, fn.Name()+": "+exprStr(x.X)
			}
		case *ast.CallExpr:
			fun := ast.Unparen(x.Fun)
			if id, ok := fun.(*ast.Ident); ok {
				if b, ok := info.ObjectOf(id).(*types.Builtin); ok {
					if (b.Name() == "delete" || b.Name() == "clear" || b.Name() == "copy") && len(x.Args) > 0 && throughPtr(x.Args[0]) {
						found, why = true, fn.Name()+": "+b.Name()+"("+exprStr(x.Args[0])+")"
					}
					return true
				}
			}
			var callee *types.Func
			switch c := fun.(type) {
			case *ast.Ident:
				callee, _ = info.ObjectOf(c).(*types.Func)
			case *ast.SelectorExpr:
				callee, _ = info.ObjectOf(c.Sel).(*types.Func)
			}
			if callee != nil && E.pkgOf(callee) == p {
				// a callee with its own assigns clause is taken at its word (the clause is proved on its body)
				if pc := E.contractsOf(p.PkgPath); pc != nil {
					if cc := pc.Funcs[funcKey(callee)]; cc != nil && cc.HasAssigns {
						if len(cc.Assigns) > 0 {
							found, why = true, callee.Name()+": assigns "+cc.Assigns[0]
						}
						return true
					}
				}
				if w, y := E.writesHeap(callee, depth+1, seen); w {
					found, why = true, y
				}
			}
		}
		return true
	})
	return found, why
}

// readonlyRule decides `readonly p` for a slice parameter p, syntactically and conservatively over the real body: no
// element of p's backing array is written by this function. Aliases of p are p itself and every local assigned from p
// or from a slice expression of an alias; a violation is an index assignment, an append whose first argument is an alias
// (it may write into spare capacity), a copy/clear with an alias as destination, or sort-like library calls on an alias.
// Handing an alias to another function is listed as assumed (the callee is taken not to write through it).
func readonlyRule(p *packages.Package, decl *ast.FuncDecl, param string) (bool, string, []string) {
	info := p.TypesInfo
	var pobj types.Object
	if decl.Type.Params != nil {
		for _, fl := range decl.Type.Params.List {
			for _, n := range fl.Names {
				if n.Name == param {
					pobj = info.ObjectOf(n)
				}
			}
		}
	}
	if pobj == nil {
		return false, "no parameter " + param, nil
	}
	alias := map[types.Object]bool{pobj: true}
	var isAlias func(e ast.Expr) bool
	isAlias = func(e ast.Expr) bool {
		switch x := ast.Unparen(e).(type) {
		case *ast.Ident:
			return alias[info.ObjectOf(x)]
		case *ast.SliceExpr:
			return isAlias(x.X)
		}
		return false
	}
	// fixpoint over assignments
	for changed := true; changed; {
		changed = false
		ast.Inspect(decl.Body, func(n ast.Node) bool {
			switch s := n.(type) {
			case *ast.AssignStmt:
				if len(s.Lhs) == len(s.Rhs) {
					for i, r := range s.Rhs {
						if id, ok := ast.Unparen(s.Lhs[i]).(*ast.Ident); ok && isAlias(r) {
							if o := info.ObjectOf(id); o != nil && !alias[o] {
								alias[o] = true
								changed = true
							}
						}
					}
				}
			case *ast.ValueSpec:
				if len(s.Names) == len(s.Values) {
					for i, r := range s.Values {
						if isAlias(r) {
							if o := info.ObjectOf(s.Names[i]); o != nil && !alias[o] {
								alias[o] = true
								changed = true
							}
						}
					}
				}
			}
			return true
		})
	}
	ok, why := true, ""
	var assumed []string
	ast.Inspect(decl.Body, func(n ast.Node) bool {
		if !ok {
			return false
		}
		switch s := n.(type) {
		case *ast.AssignStmt:
			for _, l := range s.Lhs {
				if ix, isIx := ast.Unparen(l).(*ast.IndexExpr); isIx && isAlias(ix.X) {
					ok, why = false, "assigns to an element of "+exprStr(ix.X)+" (storage of parameter "+param+")"
				}
			}
		case *ast.IncDecStmt:
			if ix, isIx := ast.Unparen(s.X).(*ast.IndexExpr); isIx && isAlias(ix.X) {
				ok, why = false, "modifies an element of "+exprStr(ix.X)
			}
		case *ast.CallExpr:
			if id, isID := ast.Unparen(s.Fun).(*ast.Ident); isID {
				if b, isB := info.ObjectOf(id).(*types.Builtin); isB {
					switch b.Name() {
					case "append", "copy", "clear":
						if len(s.Args) > 0 && isAlias(s.Args[0]) {
							ok, why = false, b.Name()+" with "+exprStr(s.Args[0])+" as destination may write into the storage of parameter "+param
						}
					}
					return true
				}
			}
			for _, a := range s.Args {
				if isAlias(a) {
					callee := exprStr(s.Fun)
					if strings.HasPrefix(callee, "sort.") || strings.HasPrefix(callee, "slices.Sort") || strings.HasPrefix(callee, "slices.Reverse") || strings.HasPrefix(callee, "slices.Delete") || strings.HasPrefix(callee, "slices.Insert") || strings.HasPrefix(callee, "slices.Compact") || strings.HasPrefix(callee, "rand.Shuffle") {
						ok, why = false, callee+" rearranges the storage of parameter "+param
					} else {
						assumed = append(assumed, callee+" does not write through its argument "+exprStr(a))
					}
				}
			}
		}
		return true
	})
	return ok, why, assumed
}
