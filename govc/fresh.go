package main

// Ownership obligations: `//@ fresh rK` on a function claims that its K-th result shares no mutable memory with
// the receiver, the parameters or package state (property C18: what is stored or handed out is an isolated copy).
//
// The SMT memory model does not represent aliasing of slice backing arrays, so this obligation is decided by a
// type-directed ownership rule over the function's real body instead of a solver query (recorded in the evidence
// as backend "ownership-rule"). The rule is conservative: it answers "fresh" only when every returned expression
// is built from allocations, pointer-free values, parts of fresh values, results of callees that are themselves
// under a `fresh` contract (modular), or objects filled by a decoder from serialised bytes (A-CODEC-FRESH, listed
// as an assumption whenever it is used). Everything else is reported as "may share memory with <what>".

import (
	"fmt"
	"go/ast"
	"go/token"
	"go/types"
	"strings"

	"golang.org/x/tools/go/packages"
)

type freshCtx struct {
	E     *Engine
	p     *packages.Package
	info  *types.Info
	decl  *ast.FuncDecl
	param map[types.Object]bool // parameter (or receiver) -> argument known fresh at this call
	busy  map[types.Object]bool
	depth int
	used  map[string]bool // assumptions used (A-CODEC-FRESH ...)
	field string          // non-empty: only this field of the (struct) result is claimed
	pc    *PkgContracts
	strict bool           // newspine: an argument's storage does not count as new
	spine bool            // freshspine: only the returned container (slice/map backing store) must be new, its elements may alias
	why   string
}

func (c *freshCtx) fail(format string, a ...interface{}) bool {
	if c.why == "" {
		c.why = fmt.Sprintf(format, a...)
	}
	return false
}

// pointerFree: values of the type cannot reach mutable shared memory.
func pointerFree(t types.Type, seen map[types.Type]bool) bool {
	if t == nil {
		return false
	}
	t = types.Unalias(t)
	if seen[t] {
		return true
	}
	seen[t] = true
	if n, ok := t.(*types.Named); ok {
		if o := n.Obj(); o != nil && o.Pkg() != nil && o.Pkg().Path() == "time" && o.Name() == "Time" {
			return true // immutable (the *Location it may hold is never mutated)
		}
	}
	switch u := t.Underlying().(type) {
	case *types.Basic:
		return u.Kind() != types.UnsafePointer
	case *types.Array:
		return pointerFree(u.Elem(), seen)
	case *types.Struct:
		for i := 0; i < u.NumFields(); i++ {
			if !pointerFree(u.Field(i).Type(), seen) {
				return false
			}
		}
		return true
	}
	return false
}

func (c *freshCtx) typeOf(e ast.Expr) types.Type {
	if tv, ok := c.info.Types[e]; ok {
		return tv.Type
	}
	if id, ok := e.(*ast.Ident); ok {
		if o := c.info.ObjectOf(id); o != nil {
			return o.Type()
		}
	}
	return nil
}

// freshResult decides the `fresh rK` obligation of decl.
func (E *Engine) freshResult(p *packages.Package, pc *PkgContracts, decl *ast.FuncDecl, k int, spine bool, field string, strict ...bool) (bool, string, []string) {
	c := &freshCtx{strict: len(strict) > 0 && strict[0], E: E, p: p, pc: pc, info: p.TypesInfo, decl: decl, param: map[types.Object]bool{}, busy: map[types.Object]bool{}, used: map[string]bool{}, spine: spine, field: field}
	ok := c.funcFresh(decl, k)
	var used []string
	for u := range c.used {
		used = append(used, u)
	}
	return ok, c.why, used
}

// funcFresh: is the k-th result of decl fresh, given c.param for its parameters?
func (c *freshCtx) funcFresh(decl *ast.FuncDecl, k int) bool {
	if decl == nil || decl.Body == nil {
		return c.fail("no body")
	}
	saved := c.decl
	c.decl = decl
	defer func() { c.decl = saved }()
	ok := true
	found := false
	var named *ast.Ident
	if decl.Type.Results != nil {
		i := 0
		for _, fl := range decl.Type.Results.List {
			if len(fl.Names) == 0 {
				i++
				continue
			}
			for _, n := range fl.Names {
				if i == k {
					named = n
				}
				i++
			}
		}
	}
	ast.Inspect(decl.Body, func(n ast.Node) bool {
		if _, isLit := n.(*ast.FuncLit); isLit {
			return false
		}
		r, isRet := n.(*ast.ReturnStmt)
		if !isRet || !ok {
			return true
		}
		found = true
		switch {
		case len(r.Results) == 0:
			if named == nil {
				ok = c.fail("bare return without a named result")
			} else {
				ok = c.expr(named)
			}
		case len(r.Results) == 1 && k >= 0 && c.resultCount(decl) > 1:
			// return f(...) spreading a multi-value call
			call, isCall := ast.Unparen(r.Results[0]).(*ast.CallExpr)
			if !isCall {
				ok = c.fail("unsupported return form")
			} else {
				ok = c.call(call, k)
			}
		case k < len(r.Results):
			ok = c.resultExpr(r.Results[k])
		default:
			ok = c.fail("result index out of range")
		}
		return true
	})
	if !found {
		return c.fail("no return statement")
	}
	return ok
}

// resultExpr: the returned expression, or only the claimed field of it.
func (c *freshCtx) resultExpr(e ast.Expr) bool {
	if c.field == "" || c.depth > 0 {
		return c.expr(e)
	}
	if cl, ok := ast.Unparen(e).(*ast.CompositeLit); ok {
		for _, el := range cl.Elts {
			if kv, ok := el.(*ast.KeyValueExpr); ok {
				if id, ok := kv.Key.(*ast.Ident); ok && id.Name == c.field {
					return c.expr(kv.Value)
				}
			}
		}
		return true // field not set: zero value
	}
	return c.fail("fresh r.%s: the result must be returned as a composite literal (got %s)", c.field, exprStr(e))
}

func (c *freshCtx) resultCount(decl *ast.FuncDecl) int {
	n := 0
	if decl.Type.Results != nil {
		for _, fl := range decl.Type.Results.List {
			if len(fl.Names) == 0 {
				n++
			} else {
				n += len(fl.Names)
			}
		}
	}
	return n
}

func (c *freshCtx) expr(e ast.Expr) bool {
	e = ast.Unparen(e)
	if t := c.typeOf(e); t != nil && pointerFree(t, map[types.Type]bool{}) {
		return true
	}
	if tv, ok := c.info.Types[e]; ok && tv.IsNil() {
		return true
	}
	switch x := e.(type) {
	case *ast.BasicLit:
		return true
	case *ast.CompositeLit:
		if c.spine {
			return true // a new container; what it holds may alias
		}
		for _, el := range x.Elts {
			v := el
			if kv, ok := el.(*ast.KeyValueExpr); ok {
				v = kv.Value
				if !c.expr(kv.Key) {
					// keys of map literals
					if _, isMap := c.typeOf(x).Underlying().(*types.Map); isMap {
						return false
					}
					c.why = ""
				}
			}
			if !c.expr(v) {
				return false
			}
		}
		return true
	case *ast.UnaryExpr:
		if x.Op == token.AND {
			return c.addr(x.X)
		}
		return c.expr(x.X)
	case *ast.StarExpr:
		return c.expr(x.X)
	case *ast.SelectorExpr:
		if sel, ok := c.info.Selections[x]; ok && sel.Kind() == types.FieldVal {
			return c.expr(x.X) // a part of a fresh value is fresh
		}
		if o := c.info.ObjectOf(x.Sel); o != nil {
			if _, isVar := o.(*types.Var); isVar {
				return c.fail("package-level variable %s", exprStr(x))
			}
		}
		return c.fail("selector %s", exprStr(x))
	case *ast.IndexExpr:
		return c.expr(x.X)
	case *ast.SliceExpr:
		return c.expr(x.X)
	case *ast.TypeAssertExpr:
		return c.expr(x.X)
	case *ast.CallExpr:
		return c.call(x, 0)
	case *ast.Ident:
		o := c.info.ObjectOf(x)
		if o == nil {
			return c.fail("unresolved %s", x.Name)
		}
		if _, isConst := o.(*types.Const); isConst {
			return true
		}
		v, isVar := o.(*types.Var)
		if !isVar {
			return c.fail("%s is not a variable", x.Name)
		}
		if fresh, isParam := c.param[o]; isParam {
			if fresh {
				return true
			}
			return c.fail("may share memory with parameter %s", x.Name)
		}
		if v.Parent() == c.p.Types.Scope() || v.Pkg() != c.p.Types {
			return c.fail("package-level variable %s", x.Name)
		}
		if c.isParamOf(o) && c.spine && !c.strict {
			return true // the caller's own argument handed back: no new sharing is created
		}
		if c.isParamOf(o) {
			return c.fail("may share memory with parameter %s (type %s is not pointer-free)", x.Name, o.Type())
		}
		return c.localFresh(o)
	}
	return c.fail("unsupported expression %s", exprStr(e))
}

// addr: &X. A composite literal or a local variable is a new object (fresh iff what it holds is); the address of
// an element, field or pointee is a pointer INTO an existing object and is fresh only if that object is.
func (c *freshCtx) addr(x ast.Expr) bool {
	x = ast.Unparen(x)
	switch y := x.(type) {
	case *ast.CompositeLit:
		return c.expr(y)
	case *ast.Ident:
		return c.expr(y)
	case *ast.IndexExpr:
		switch c.typeOf(y.X).Underlying().(type) {
		case *types.Slice, *types.Map, *types.Pointer:
			return c.container(y.X) // element of shared storage unless the container itself is fresh
		}
		return c.addr(y.X) // array value: part of its holder
	case *ast.SelectorExpr:
		if sel, ok := c.info.Selections[y]; ok && sel.Kind() == types.FieldVal {
			if sel.Indirect() {
				return c.container(y.X)
			}
			return c.addr(y.X)
		}
		return c.fail("address of %s", exprStr(x))
	case *ast.StarExpr:
		return c.container(y.X)
	}
	return c.fail("address of %s", exprStr(x))
}

// container: the slice / map / pointer expression denotes storage created by this call (no pointer-free shortcut:
// the question is about the storage, not about the values in it).
func (c *freshCtx) container(e ast.Expr) bool {
	e = ast.Unparen(e)
	if y, ok := e.(*ast.Ident); ok {
		o := c.info.ObjectOf(y)
		if v, ok := o.(*types.Var); ok {
			if fresh, isParam := c.param[o]; isParam {
				if fresh {
					return true
				}
				return c.fail("points into storage of parameter %s", y.Name)
			}
			if c.isParamOf(o) || v.Parent() == c.p.Types.Scope() {
				return c.fail("points into storage of %s", y.Name)
			}
			return c.localFresh(o)
		}
		return c.fail("points into %s", y.Name)
	}
	if y, ok := e.(*ast.SelectorExpr); ok {
		if sel, ok := c.info.Selections[y]; ok && sel.Kind() == types.FieldVal && sel.Indirect() {
			return c.container(y.X)
		}
	}
	return c.expr(e)
}

func (c *freshCtx) isParamOf(o types.Object) bool {
	check := func(fl *ast.FieldList) bool {
		if fl == nil {
			return false
		}
		for _, f := range fl.List {
			for _, n := range f.Names {
				if c.info.ObjectOf(n) == o {
					return true
				}
			}
		}
		return false
	}
	return check(c.decl.Recv) || check(c.decl.Type.Params)
}

// localFresh: every value that can be in local variable o (and every part stored into it) is fresh.
func (c *freshCtx) localFresh(o types.Object) bool {
	if c.busy[o] {
		return true // cyclic dependency through the variable itself (x = append(x, ...))
	}
	c.busy[o] = true
	defer delete(c.busy, o)
	ok := true
	rootIs := func(e ast.Expr) bool {
		// e is o, or o.f / o[i] / *o ... (a store into a part of o)
		for {
			switch x := ast.Unparen(e).(type) {
			case *ast.Ident:
				return c.info.ObjectOf(x) == o
			case *ast.SelectorExpr:
				e = x.X
			case *ast.IndexExpr:
				e = x.X
			case *ast.StarExpr:
				e = x.X
			default:
				return false
			}
		}
	}
	ast.Inspect(c.decl.Body, func(n ast.Node) bool {
		if !ok {
			return false
		}
		switch s := n.(type) {
		case *ast.FuncLit:
			// a closure writing the variable: give up if it mentions it
			mentions := false
			ast.Inspect(s.Body, func(m ast.Node) bool {
				if id, isID := m.(*ast.Ident); isID && c.info.ObjectOf(id) == o {
					mentions = true
				}
				return !mentions
			})
			if mentions {
				ok = c.fail("variable %s is used inside a function literal", o.Name())
			}
			return false
		case *ast.AssignStmt:
			if len(s.Rhs) == 1 && len(s.Lhs) > 1 {
				for i, l := range s.Lhs {
					if rootIs(l) {
						if call, isCall := ast.Unparen(s.Rhs[0]).(*ast.CallExpr); isCall {
							if !c.call(call, i) {
								ok = false
							}
						} else if i == 0 {
							if !c.expr(s.Rhs[0]) { // v, ok := m[k] / x.(T) / <-ch
								ok = false
							}
						}
					}
				}
				return true
			}
			for i, l := range s.Lhs {
				if i < len(s.Rhs) && rootIs(l) {
					if !c.expr(s.Rhs[i]) {
						ok = false
					}
				}
			}
		case *ast.ValueSpec:
			for i, n := range s.Names {
				if c.info.ObjectOf(n) != o {
					continue
				}
				if len(s.Values) == len(s.Names) {
					if !c.expr(s.Values[i]) {
						ok = false
					}
				} else if len(s.Values) == 1 {
					if call, isCall := ast.Unparen(s.Values[0]).(*ast.CallExpr); isCall && !c.call(call, i) {
						ok = false
					}
				}
			}
		case *ast.RangeStmt:
			for _, kv := range []ast.Expr{s.Key, s.Value} {
				if kv != nil && rootIs(kv) {
					if !c.expr(s.X) {
						ok = false
					}
				}
			}
		case *ast.CallExpr:
			// o (or its address) handed to a callee: fine for decoders (they fill it from bytes) and for
			// callees that do not retain or fill it with shared memory
			for ai, a := range s.Args {
				arg := ast.Unparen(a)
				if u, isAddr := arg.(*ast.UnaryExpr); isAddr && u.Op == token.AND {
					arg = ast.Unparen(u.X)
				}
				if !rootIs(arg) {
					continue
				}
				if pointerFree(c.typeOf(a), map[types.Type]bool{}) {
					continue
				}
				if !c.argKeepsFresh(s, ai) {
					ok = false
				}
			}
			if sel, isSel := ast.Unparen(s.Fun).(*ast.SelectorExpr); isSel && rootIs(sel.X) {
				if !c.recvKeepsFresh(s, sel) {
					ok = false
				}
			}
		}
		return true
	})
	return ok
}

var decoders = map[string]int{ // function -> index of the destination argument
	"encoding/json.Unmarshal":               1,
	"google.golang.org/protobuf/proto.Unmarshal": 1,
}

// argKeepsFresh: passing the (fresh) local as argument ai of call keeps it fresh.
func (c *freshCtx) argKeepsFresh(call *ast.CallExpr, ai int) bool {
	fn := c.callee(call)
	if id, ok := ast.Unparen(call.Fun).(*ast.Ident); ok {
		if _, isB := c.info.ObjectOf(id).(*types.Builtin); isB {
			switch id.Name {
			case "copy":
				if ai == 0 && len(call.Args) == 2 {
					if sl, ok := c.typeOf(call.Args[0]).Underlying().(*types.Slice); ok && pointerFree(sl.Elem(), map[types.Type]bool{}) {
						return true
					}
					return c.expr(call.Args[1])
				}
				return true
			case "len", "cap", "delete", "clear", "append", "print", "println":
				return true
			}
		}
	}
	if fn == nil {
		return c.fail("passed to an unknown callee %s", exprStr(call.Fun))
	}
	full := fn.FullName()
	if di, ok := decoders[full]; ok {
		if di == ai {
			c.used["A-CODEC-FRESH: an object filled by "+full+" from serialised bytes shares no memory with the encoder's input"] = true
		}
		return true
	}
	// same-package helper: does it fill the parameter only through decoders?
	if decl := c.E.declOf(fn); decl != nil && decl.Body != nil && c.E.pkgOf(fn) == c.p && c.depth < 4 {
		sig := fn.Type().(*types.Signature)
		if ai < sig.Params().Len() {
			c.depth++
			ok := c.paramOnlyFilled(decl, sig.Params().At(ai))
			c.depth--
			return ok
		}
	}
	if fn.Pkg() != nil && fn.Pkg() != c.p.Types {
		// external callee reading the value (logging, hashing, encoding): assumed not to store shared memory INTO it
		return true
	}
	return c.fail("passed to %s, which may store shared memory into it", full)
}

// recvKeepsFresh: a method called on the fresh local keeps it fresh (decoders fill it from bytes).
func (c *freshCtx) recvKeepsFresh(call *ast.CallExpr, sel *ast.SelectorExpr) bool {
	name := sel.Sel.Name
	switch name {
	case "UnmarshalJSON", "UnmarshalSSZ", "UnmarshalSSZTail", "Unmarshal":
		c.used["A-CODEC-FRESH: an object filled by "+name+" from serialised bytes shares no memory with the encoder's input"] = true
		return true
	}
	// any other method may store its arguments into the receiver (directly through a pointer receiver, or through
	// the pointers a value receiver holds): every argument that can reach mutable memory must itself be fresh
	for _, a := range call.Args {
		if pointerFree(c.typeOf(a), map[types.Type]bool{}) {
			continue
		}
		if !c.expr(a) {
			return c.fail("method %s is called on the result with an argument (%s) that may share memory with the inputs", name, exprStr(a))
		}
	}
	return true
}

// paramOnlyFilled: inside decl, parameter p is only handed to decoders (as destination) or read.
func (c *freshCtx) paramOnlyFilled(decl *ast.FuncDecl, p *types.Var) bool {
	ok := true
	var pobj types.Object
	for _, f := range decl.Type.Params.List {
		for _, n := range f.Names {
			if n.Name == p.Name() {
				pobj = c.info.ObjectOf(n)
			}
		}
	}
	if pobj == nil {
		return c.fail("parameter %s not found", p.Name())
	}
	saved := c.decl
	c.decl = decl
	defer func() { c.decl = saved }()
	ast.Inspect(decl.Body, func(n ast.Node) bool {
		if !ok {
			return false
		}
		switch s := n.(type) {
		case *ast.AssignStmt:
			for _, l := range s.Lhs {
				root := ast.Unparen(l)
				for {
					switch x := root.(type) {
					case *ast.SelectorExpr:
						root = ast.Unparen(x.X)
						continue
					case *ast.IndexExpr:
						root = ast.Unparen(x.X)
						continue
					case *ast.StarExpr:
						root = ast.Unparen(x.X)
						continue
					}
					break
				}
				if id, isID := root.(*ast.Ident); isID && c.info.ObjectOf(id) == pobj && root != ast.Unparen(l) {
					ok = c.fail("%s writes through parameter %s", decl.Name.Name, p.Name())
				}
			}
		case *ast.CallExpr:
			for ai, a := range s.Args {
				if id, isID := ast.Unparen(a).(*ast.Ident); isID && c.info.ObjectOf(id) == pobj {
					if !c.argKeepsFresh(s, ai) {
						ok = false
					}
				}
			}
			if sel, isSel := ast.Unparen(s.Fun).(*ast.SelectorExpr); isSel {
				if id, isID := ast.Unparen(sel.X).(*ast.Ident); isID && c.info.ObjectOf(id) == pobj {
					c.recvKeepsFresh(s, sel)
				}
			}
		}
		return true
	})
	return ok
}

func (c *freshCtx) callee(call *ast.CallExpr) *types.Func {
	switch fun := ast.Unparen(call.Fun).(type) {
	case *ast.Ident:
		fn, _ := c.info.ObjectOf(fun).(*types.Func)
		return fn
	case *ast.SelectorExpr:
		if sel, ok := c.info.Selections[fun]; ok {
			fn, _ := sel.Obj().(*types.Func)
			return fn
		}
		fn, _ := c.info.ObjectOf(fun.Sel).(*types.Func)
		return fn
	case *ast.IndexExpr: // explicit instantiation f[T](...)
		if id, ok := ast.Unparen(fun.X).(*ast.Ident); ok {
			fn, _ := c.info.ObjectOf(id).(*types.Func)
			return fn
		}
	}
	return nil
}

// call: is the k-th result of the call fresh?
func (c *freshCtx) call(call *ast.CallExpr, k int) bool {
	// conversion
	if tv, ok := c.info.Types[call.Fun]; ok && tv.IsType() {
		if len(call.Args) == 1 {
			return c.expr(call.Args[0])
		}
		return true
	}
	if id, ok := ast.Unparen(call.Fun).(*ast.Ident); ok {
		if _, isB := c.info.ObjectOf(id).(*types.Builtin); isB {
			switch id.Name {
			case "new", "make":
				return true
			case "append":
				if c.spine {
					return len(call.Args) == 0 || c.expr(call.Args[0])
				}
				for i, a := range call.Args {
					if i == 0 {
						if !c.expr(a) {
							return false
						}
						continue
					}
					if !c.expr(a) {
						return false
					}
				}
				return true
			case "min", "max", "len", "cap":
				return true
			}
			return c.fail("builtin %s", id.Name)
		}
	}
	if c.pc != nil && c.pc.FreshCalls[exprStr(call.Fun)] {
		c.used["results of "+exprStr(call.Fun)+" are newly decoded objects (declared with freshcalls)"] = true
		return true
	}
	fn := c.callee(call)
	if fn == nil {
		return c.fail("result of a call through a function value (%s)", exprStr(call.Fun))
	}
	fn = fn.Origin()
	sig := fn.Type().(*types.Signature)
	if k < sig.Results().Len() && pointerFree(sig.Results().At(k).Type(), map[types.Type]bool{}) {
		if _, isTP := sig.Results().At(k).Type().(*types.TypeParam); !isTP {
			return true
		}
	}
	// modular: callee (or, for an interface method, every implementation in the module packages loaded) under a fresh contract
	if pc, fc := c.E.contractFor(fn, c.p); fc != nil && fc.Fresh[k] {
		_ = pc
		return true
	}
	if recv := sig.Recv(); recv != nil {
		if it, isIface := recv.Type().Underlying().(*types.Interface); isIface {
			return c.ifaceFresh(it, fn.Name(), k, exprStr(call.Fun))
		}
	}
	switch fn.FullName() {
	case "bytes.Clone", "slices.Clone", "maps.Clone", "strings.Clone":
		if len(call.Args) == 1 {
			switch u := c.typeOf(call.Args[0]).Underlying().(type) {
			case *types.Slice:
				if pointerFree(u.Elem(), map[types.Type]bool{}) {
					return true
				}
			case *types.Map:
				if pointerFree(u.Elem(), map[types.Type]bool{}) && pointerFree(u.Key(), map[types.Type]bool{}) {
					return true
				}
			}
		}
		return c.fail("%s is a shallow copy of elements that are not pointer-free", fn.FullName())
	case "google.golang.org/protobuf/proto.Clone":
		c.used["proto.Clone returns a deep copy"] = true
		return true
	}
	// same-package callee without a fresh contract: analyse its body with the freshness of the arguments
	if decl := c.E.declOf(fn); decl != nil && decl.Body != nil && c.E.pkgOf(fn) == c.p && c.depth < 4 {
		np := map[types.Object]bool{}
		i := 0
		for _, f := range decl.Type.Params.List {
			for _, n := range f.Names {
				if i < len(call.Args) {
					saveWhy := c.why
					np[c.info.ObjectOf(n)] = c.expr(call.Args[i])
					c.why = saveWhy
				}
				i++
			}
		}
		if decl.Recv != nil {
			if sel, ok := ast.Unparen(call.Fun).(*ast.SelectorExpr); ok {
				for _, f := range decl.Recv.List {
					for _, n := range f.Names {
						saveWhy := c.why
						np[c.info.ObjectOf(n)] = c.expr(sel.X)
						c.why = saveWhy
					}
				}
			}
		}
		saved := c.param
		c.param = np
		c.depth++
		ok := c.funcFresh(decl, k)
		c.depth--
		c.param = saved
		if !ok && !strings.Contains(c.why, " in ") {
			c.why = c.why + " in " + fn.Name()
		}
		return ok
	}
	return c.fail("result of %s, which is not under a fresh contract", fn.FullName())
}

// ifaceFresh: a call of interface method `name` yields a fresh k-th result if every implementation declared in the
// package under verification is under a `fresh rK` contract (checked here), and implementations elsewhere are assumed to be.
func (c *freshCtx) ifaceFresh(it *types.Interface, name string, k int, text string) bool {
	n := 0
	scope := c.p.Types.Scope()
	for _, tn := range scope.Names() {
		obj, ok := scope.Lookup(tn).(*types.TypeName)
		if !ok {
			continue
		}
		T := obj.Type()
		if _, isIface := T.Underlying().(*types.Interface); isIface {
			continue
		}
		var impl types.Type
		if types.Implements(T, it) {
			impl = T
		} else if types.Implements(types.NewPointer(T), it) {
			impl = types.NewPointer(T)
		} else {
			continue
		}
		m, _, _ := types.LookupFieldOrMethod(impl, true, c.p.Types, name)
		fn, ok := m.(*types.Func)
		if !ok {
			continue
		}
		if _, fc := c.E.contractFor(fn.Origin(), c.p); fc == nil || !fc.Fresh[k] {
			return c.fail("%s: implementation %s.%s is not under a fresh r%d contract", text, tn, name, k)
		}
		n++
	}
	if n == 0 {
		c.used["implementations of "+text+" outside this package return isolated copies"] = true
	}
	return true
}

// freshArg decides `fresharg <callee> <k>[.field]`: at every call of <callee> in decl, the k-th argument (1-based; or
// the named field of a composite-literal argument) is a container this function owns: newly allocated here, or a
// fresh copy (slices.Clone, append from nil, make, ...). The callee keeps what it is handed (a cache stores the slice
// and appends to it later), so handing it shared storage lets a later append write into memory of another owner.
func (E *Engine) freshArg(p *packages.Package, pc *PkgContracts, decl *ast.FuncDecl, calleeText string, k int, field string) (bool, string, int, []string) {
	c := &freshCtx{E: E, p: p, pc: pc, info: p.TypesInfo, decl: decl, param: map[types.Object]bool{}, busy: map[types.Object]bool{}, used: map[string]bool{}, spine: true, strict: true}
	ok := true
	sites := 0
	ast.Inspect(decl.Body, func(n ast.Node) bool {
		call, isCall := n.(*ast.CallExpr)
		if !isCall || !ok {
			return true
		}
		if exprStr(ast.Unparen(call.Fun)) != calleeText {
			return true
		}
		sites++
		if k < 1 || k > len(call.Args) {
			ok = c.fail("call of %s has no argument %d", calleeText, k)
			return true
		}
		arg := ast.Unparen(call.Args[k-1])
		if field != "" {
			cl, isLit := arg.(*ast.CompositeLit)
			if !isLit {
				ok = c.fail("argument %d of %s is not a composite literal: field %s cannot be resolved", k, calleeText, field)
				return true
			}
			var fe ast.Expr
			for _, el := range cl.Elts {
				if kv, isKV := el.(*ast.KeyValueExpr); isKV {
					if id, isID := kv.Key.(*ast.Ident); isID && id.Name == field {
						fe = kv.Value
					}
				}
			}
			if fe == nil {
				return true // field left at its zero value
			}
			arg = fe
		}
		if !c.container(arg) {
			ok = false
		}
		return true
	})
	var used []string
	for u := range c.used {
		used = append(used, u)
	}
	return ok, c.why, sites, used
}
