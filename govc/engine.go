package main

import (
	"fmt"
	"go/ast"
	"go/types"
	"math/big"
	"os"
	"regexp"
	"runtime/debug"
	"sort"
	"strings"

	"golang.org/x/tools/go/packages"
)

func newBig(i int64) *big.Int { return big.NewInt(i) }

const modulePath = "github.com/obolnetwork/charon"

// Engine holds loaded packages and contracts.
type Engine struct {
	repo      string
	pkgs      map[string]*packages.Package
	contracts map[string]*PkgContracts
	decls     map[*types.Func]*ast.FuncDecl
	declPkg   map[*types.Func]*packages.Package
	used      map[string]map[string]*FuncContract
	overlay   map[string][]byte
	mutCache  map[*packages.Package]map[*types.Var]bool
	implicit  []*implicitJob // helpers without contract called from nopanic functions: verified under an implicit no-panic contract
	implDone  map[string]bool
	names       map[string]funcNames // ledger/names.json: recorded identifier names of the functions under contract
	nameRepairs []string             // repairs applied in this run (echoed in the evidence)
}

type implicitJob struct {
	p  *packages.Package
	pc *PkgContracts
	c  *FuncContract
}

func NewEngine(repo string) *Engine {
	return &Engine{repo: repo, pkgs: map[string]*packages.Package{}, contracts: map[string]*PkgContracts{}, decls: map[*types.Func]*ast.FuncDecl{}, declPkg: map[*types.Func]*packages.Package{}, used: map[string]map[string]*FuncContract{}}
}

// Load loads packages (patterns relative to the repo root).
func (E *Engine) Load(patterns []string) error {
	cfg := &packages.Config{
		Mode:       packages.NeedName | packages.NeedFiles | packages.NeedSyntax | packages.NeedTypes | packages.NeedTypesInfo | packages.NeedImports,
		Dir:        E.repo,
		BuildFlags: []string{"-tags=verif"},
		Env:        append(os.Environ(), "PATH=/opt/veriftools/go1.26.8/bin:"+os.Getenv("PATH"), "GOTOOLCHAIN=local", "GOFLAGS=-mod=mod", "GOPROXY=off", "GOSUMDB=off"),
		Overlay:    E.overlay,
	}
	pkgs, err := packages.Load(cfg, patterns...)
	if err != nil {
		return err
	}
	for _, p := range pkgs {
		if len(p.Errors) > 0 {
			var es []string
			for _, e := range p.Errors {
				es = append(es, e.Error())
			}
			return fmt.Errorf("package %s: %s", p.PkgPath, strings.Join(es, "; "))
		}
		E.pkgs[p.PkgPath] = p
		for _, file := range p.Syntax {
			for _, d := range file.Decls {
				if fd, ok := d.(*ast.FuncDecl); ok {
					if o, ok := p.TypesInfo.Defs[fd.Name].(*types.Func); ok {
						E.decls[o] = fd
						E.declPkg[o] = p
					}
				}
			}
		}
	}
	return nil
}

func (E *Engine) dirOf(pkgPath string) string {
	if p, ok := E.pkgs[pkgPath]; ok && len(p.GoFiles) > 0 {
		f := p.GoFiles[0]
		return f[:strings.LastIndex(f, "/")]
	}
	if strings.HasPrefix(pkgPath, modulePath) {
		return E.repo + strings.TrimPrefix(pkgPath, modulePath)
	}
	return ""
}

func (E *Engine) contractsOf(pkgPath string) *PkgContracts {
	if pc, ok := E.contracts[pkgPath]; ok {
		return pc
	}
	dir := E.dirOf(pkgPath)
	var pc *PkgContracts
	if dir != "" {
		p, err := ParseContracts(dir)
		if err != nil {
			fmt.Fprintln(os.Stderr, "contract parse error:", err)
			os.Exit(3)
		}
		pc = p
	}
	E.contracts[pkgPath] = pc
	if pc != nil {
		E.expandWildcards(pkgPath, pc)
		E.repairNames(pkgPath, pc)
	}
	return pc
}

// expandWildcards: a contract headed `func (m T) *` stands for one contract, with the same clauses, on every method
// of T declared in the package that is not under a contract of its own, has the receiver name written in the header
// and (when the contract has callreq clauses) calls at least one of the callees those clauses name. The copies are
// ordinary contracts (`T.Method`): each generates and discharges its own obligations.
func (E *Engine) expandWildcards(pkgPath string, pc *PkgContracts) {
	var order []string
	for _, key := range pc.Order {
		if !strings.HasSuffix(key, ".*") {
			order = append(order, key)
			continue
		}
		c := pc.Funcs[key]
		delete(pc.Funcs, key)
		recv := strings.TrimSuffix(key, ".*")
		var names []string
		decls := map[string]*ast.FuncDecl{}
		for fn, d := range E.decls {
			if E.declPkg[fn] == nil || E.declPkg[fn].PkgPath != pkgPath || d.Recv == nil || d.Body == nil {
				continue
			}
			k := funcKey(fn)
			if !strings.HasPrefix(k, recv+".") {
				continue
			}
			if _, own := pc.Funcs[k]; own {
				continue
			}
			if len(c.CallReq) > 0 {
				calls := false
				ast.Inspect(d.Body, func(n ast.Node) bool {
					if ce, ok := n.(*ast.CallExpr); ok {
						if _, ok := c.CallReq[exprStr(ce.Fun)]; ok {
							calls = true
						}
					}
					return !calls
				})
				if !calls {
					continue
				}
			}
			names = append(names, k)
			decls[k] = d
		}
		sort.Strings(names)
		for _, k := range names {
			cp := *c
			cp.Key = k
			pc.Funcs[k] = &cp
			order = append(order, k)
		}
	}
	pc.Order = order
}

func (E *Engine) pkgByDir(dir string) *packages.Package {
	for _, p := range E.pkgs {
		if E.dirOf(p.PkgPath) == dir {
			return p
		}
	}
	return nil
}

// mutableFields returns the struct fields that are assigned somewhere in the package's functions
// (everything else is written only by composite literals, i.e. immutable after construction).
func (E *Engine) mutableFields(p *packages.Package) map[*types.Var]bool {
	if m, ok := E.mutCache[p]; ok {
		return m
	}
	m := map[*types.Var]bool{}
	var mark func(e ast.Expr)
	mark = func(e ast.Expr) {
		switch e := ast.Unparen(e).(type) {
		case *ast.SelectorExpr:
			if sel, ok := p.TypesInfo.Selections[e]; ok {
				if v, ok := sel.Obj().(*types.Var); ok && v.IsField() {
					m[v] = true
				}
			}
			mark(e.X)
		case *ast.IndexExpr:
			mark(e.X)
		case *ast.StarExpr:
			mark(e.X)
		case *ast.SliceExpr:
			mark(e.X)
		}
	}
	for _, file := range p.Syntax {
		ast.Inspect(file, func(n ast.Node) bool {
			switch n := n.(type) {
			case *ast.AssignStmt:
				for _, l := range n.Lhs {
					mark(l)
				}
			case *ast.IncDecStmt:
				mark(n.X)
			case *ast.CallExpr:
				if id, ok := n.Fun.(*ast.Ident); ok && (id.Name == "delete" || id.Name == "clear" || id.Name == "copy") && len(n.Args) > 0 {
					mark(n.Args[0])
				}
			case *ast.UnaryExpr:
				if n.Op.String() == "&" {
					mark(n.X) // address taken: may be written through the pointer
				}
			}
			return true
		})
	}
	if E.mutCache == nil {
		E.mutCache = map[*packages.Package]map[*types.Var]bool{}
	}
	E.mutCache[p] = m
	return m
}

// litsOf returns the function literals that variable o is bound to anywhere in the package.
func (E *Engine) litsOf(p *packages.Package, o types.Object) []*ast.FuncLit {
	var out []*ast.FuncLit
	for _, file := range p.Syntax {
		if o.Pos() < file.Pos() || o.Pos() > file.End() {
			continue
		}
		ast.Inspect(file, func(n ast.Node) bool {
			switch s := n.(type) {
			case *ast.AssignStmt:
				for i, l := range s.Lhs {
					if id, ok := l.(*ast.Ident); ok && p.TypesInfo.ObjectOf(id) == o && i < len(s.Rhs) {
						if lit, isLit := ast.Unparen(s.Rhs[i]).(*ast.FuncLit); isLit {
							out = append(out, lit)
						}
					}
				}
			case *ast.ValueSpec:
				for i, id := range s.Names {
					if p.TypesInfo.ObjectOf(id) == o && i < len(s.Values) {
						if lit, isLit := ast.Unparen(s.Values[i]).(*ast.FuncLit); isLit {
							out = append(out, lit)
						}
					}
				}
			}
			return true
		})
	}
	return out
}

// declNodeOf reports whether variable o is (somewhere in the package) bound to a function literal.
func (E *Engine) declNodeOf(p *packages.Package, o types.Object) bool {
	found := false
	for _, file := range p.Syntax {
		if o.Pos() < file.Pos() || o.Pos() > file.End() {
			continue
		}
		ast.Inspect(file, func(n ast.Node) bool {
			switch s := n.(type) {
			case *ast.AssignStmt:
				for i, l := range s.Lhs {
					if id, ok := l.(*ast.Ident); ok && p.TypesInfo.ObjectOf(id) == o && i < len(s.Rhs) {
						if _, isLit := ast.Unparen(s.Rhs[i]).(*ast.FuncLit); isLit {
							found = true
						}
					}
				}
			case *ast.ValueSpec:
				for i, id := range s.Names {
					if p.TypesInfo.ObjectOf(id) == o && i < len(s.Values) {
						if _, isLit := ast.Unparen(s.Values[i]).(*ast.FuncLit); isLit {
							found = true
						}
					}
				}
			}
			return !found
		})
	}
	return found
}

func (E *Engine) declOf(fn *types.Func) *ast.FuncDecl { return E.decls[fn] }
func (E *Engine) pkgOf(fn *types.Func) *packages.Package {
	return E.declPkg[fn]
}

func funcKey(fn *types.Func) string {
	sig := fn.Type().(*types.Signature)
	if r := sig.Recv(); r != nil {
		t := r.Type()
		if p, ok := t.(*types.Pointer); ok {
			t = p.Elem()
		}
		if n, ok := types.Unalias(t).(*types.Named); ok {
			return n.Obj().Name() + "." + fn.Name()
		}
	}
	return fn.Name()
}

// contractFor finds the contract of fn: in its own package, else an assumed contract in the caller's package.
func (E *Engine) contractFor(fn *types.Func, from *packages.Package) (*PkgContracts, *FuncContract) {
	if fn.Pkg() == nil {
		return nil, nil
	}
	key := funcKey(fn)
	if strings.HasPrefix(fn.Pkg().Path(), modulePath) {
		if pc := E.contractsOf(fn.Pkg().Path()); pc != nil {
			if c, ok := pc.Funcs[key]; ok {
				return pc, c
			}
		}
	}
	if from != nil {
		if pc := E.contractsOf(from.PkgPath); pc != nil {
			if c, ok := pc.Funcs[fn.Pkg().Name()+"."+key]; ok {
				return pc, c
			}
		}
	}
	return nil, nil
}

func (E *Engine) findDecl(p *packages.Package, key string) *ast.FuncDecl {
	for fn, d := range E.decls {
		if E.declPkg[fn] == p && funcKey(fn) == key {
			return d
		}
	}
	return nil
}

func (E *Engine) usedContract(caller, callee string, c *FuncContract) {
	if E.used[caller] == nil {
		E.used[caller] = map[string]*FuncContract{}
	}
	E.used[caller][callee] = c
}

// FuncResult is the outcome of generating VCs for one function.
type FuncResult struct {
	Key   string
	Pkg   string
	Obls  []*Obligation
	Notes []string
	Errs  []string
	Mode  string
	Trusted []string
	Replayable bool // inputs can be rebuilt from a solver model (see concretise.go)
}

var reNcalls = regexp.MustCompile(`ncalls\(([^()"]*(?:\([^()]*\))?[^()"]*)\)`)
var reNcallsStr = regexp.MustCompile(`(?:ncalls|lastarg)\("([^"]*)"`)

// VerifyFunc generates the obligations of one function under contract.
func (E *Engine) VerifyFunc(p *packages.Package, pc *PkgContracts, c *FuncContract) (res *FuncResult) {
	res = &FuncResult{Key: c.Key, Pkg: p.PkgPath, Mode: c.Mode, Trusted: c.Trusted}
	baseKey, litOrd := c.Key, 0
	if i := strings.Index(c.Key, "$"); i >= 0 {
		baseKey = c.Key[:i]
		fmt.Sscanf(c.Key[i+1:], "%d", &litOrd)
	}
	decl := E.findDecl(p, baseKey)
	var lit *ast.FuncLit
	if litOrd > 0 && decl != nil && decl.Body != nil {
		// a function literal under contract: <Func>$<n> is the n-th literal (pre-order) in Func's body;
		// its captured variables are implicit, unconstrained parameters
		n := 0
		ast.Inspect(decl.Body, func(nd ast.Node) bool {
			if fl, ok := nd.(*ast.FuncLit); ok {
				n++
				if n == litOrd {
					lit = fl
				}
			}
			return lit == nil
		})
		if lit == nil {
			decl = nil
		} else {
			decl = &ast.FuncDecl{Name: ast.NewIdent(c.Key), Type: lit.Type, Body: lit.Body}
		}
	}
	f := &FuncCtx{E: E, Pkg: p, Decl: decl, C: c, PC: pc, S: NewSorts(modulePath), key: p.Types.Name() + "." + c.Key,
		callOrd: map[string]int{}, safeOrd: map[string]int{}, trackCall: map[string]bool{}, notes: map[string]bool{},
		heap0: map[string]string{}, heapSort: map[string][2]string{}, globals: map[types.Object]Val{}, pures: map[string]bool{},
		specDone: map[string]bool{}, specBusy: map[string]bool{}, axiomsDone: map[string]bool{}, allocs: map[string][]string{}, aliases: map[types.Object]ast.Expr{}}
	if strings.Contains(p.PkgPath, "/") {
		// disambiguate same-named packages (core/qbft vs core/consensus/qbft)
		rel := strings.TrimPrefix(p.PkgPath, modulePath+"/")
		f.key = rel + "." + c.Key
	}
	if c.Mode == "bv" {
		f.S.bv = true
	}
	defer func() {
		if r := recover(); r != nil {
			res.Errs = append(res.Errs, fmt.Sprintf("engine panic: %v\n%s", r, debug.Stack()))
			o := &Obligation{Name: f.key + "/generate", Kind: "generate", Fn: f.key, Pkg: p.PkgPath, Gen: fmt.Sprintf("engine panic: %v", r), Props: c.Props}
			res.Obls = append(res.Obls, o)
		}
	}()
	if decl == nil || decl.Body == nil {
		o := &Obligation{Name: f.key + "/generate", Kind: "generate", Fn: f.key, Pkg: p.PkgPath, Gen: "function not found in package (renamed or removed)", Props: c.Props}
		res.Obls = append(res.Obls, o)
		res.Errs = append(res.Errs, o.Gen)
		return res
	}
	// ownership obligations (decided by the type-directed rule in fresh.go)
	if litOrd == 0 {
		var ks []int
		for k := range c.Fresh {
			ks = append(ks, k)
		}
		sort.Ints(ks)
		type fk struct {
			k     int
			spine bool
		}
		var fks []fk
		for _, k := range ks {
			fks = append(fks, fk{k, false})
		}
		var sks []int
		for k := range c.Spine {
			sks = append(sks, k)
		}
		sort.Ints(sks)
		for _, k := range sks {
			fks = append(fks, fk{k, true})
		}
		for _, x := range fks {
			k := x.k
			field := ""
			if !x.spine {
				field = c.FreshField[k]
			}
			ok, why, used := E.freshResult(p, pc, decl, k, x.spine, field, x.spine && c.SpineStrict[k])
			name, text := "fresh", "the result shares no mutable memory with receiver, parameters or package state"
			if x.spine {
				name, text = "freshspine", "the returned container (slice/map storage) is newly allocated or one of the arguments, never package state or storage obtained elsewhere; its elements may alias"
				if c.SpineStrict[k] {
					name, text = "newspine", "the returned container (slice/map storage) is newly allocated: not package state, not storage obtained elsewhere and not an argument's storage (which would be written through or handed back)"
				}
			}
			o := &Obligation{Name: fmt.Sprintf("%s/%s.r%d", f.key, name, k), Kind: "fresh", Fn: f.key, Pkg: p.PkgPath, Props: c.Props,
				Text: fmt.Sprintf("%s r%d: %s", name, k, text), Src: fmt.Sprintf("%s:%d", shortPath(c.File), c.Line)}
			if ok {
				o.Decided = "unsat"
				o.Output = "ownership rule: every returned expression is an allocation, pointer-free, part of a fresh value, the result of a callee under a fresh contract, or filled by a decoder"
			} else {
				o.Decided = "sat"
				o.Output = "ownership rule: " + why
			}
			for _, u := range used {
				f.note("assumed by the ownership rule: " + u)
			}
			res.Obls = append(res.Obls, o)
		}
	}
	for _, fa := range c.FreshArgs {
		kf := fa[1]
		field := ""
		if i := strings.Index(kf, "."); i > 0 {
			kf, field = kf[:i], kf[i+1:]
		}
		var k int
		fmt.Sscanf(kf, "%d", &k)
		ok, why, sites, used := E.freshArg(p, pc, decl, fa[0], k, field)
		o := &Obligation{Name: fmt.Sprintf("%s/fresharg.%s.%s", f.key, fa[0], fa[1]), Kind: "fresh", Fn: f.key, Pkg: p.PkgPath, Props: c.Props,
			Text: fmt.Sprintf("fresharg %s %s: at every call the argument is a container this function owns (newly allocated or a fresh copy), never storage shared with the caller, the receiver or package state", fa[0], fa[1]),
			Src:  fmt.Sprintf("%s:%d", shortPath(c.File), c.Line)}
		switch {
		case sites == 0:
			o.Decided, o.Output = "sat", "ownership rule: no call of "+fa[0]+" found in the body"
		case ok:
			o.Decided, o.Output = "unsat", fmt.Sprintf("ownership rule: %d call site(s), each argument is an allocation or a fresh copy", sites)
		default:
			o.Decided, o.Output = "sat", "ownership rule: "+why
		}
		for _, u := range used {
			f.note("assumed by the ownership rule: " + u)
		}
		res.Obls = append(res.Obls, o)
	}
	for _, ro := range c.ReadOnly {
		ok, why, assumed := readonlyRule(p, decl, ro)
		o := &Obligation{Name: fmt.Sprintf("%s/readonly.%s", f.key, ro), Kind: "fresh", Fn: f.key, Pkg: p.PkgPath, Props: c.Props,
			Text: fmt.Sprintf("readonly %s: no element of the parameter's backing storage is written (no index assignment, append, copy or in-place library call through it or a slice of it)", ro),
			Src:  fmt.Sprintf("%s:%d", shortPath(c.File), c.Line)}
		if ok {
			o.Decided = "unsat"
			o.Output = "ownership rule: the parameter and its slices are only read"
		} else {
			o.Decided = "sat"
			o.Output = "ownership rule: " + why
		}
		for _, u := range assumed {
			f.note("assumed by the ownership rule: " + u)
		}
		res.Obls = append(res.Obls, o)
	}
	if c.Recovers && litOrd == 0 {
		ok, why := recoversRule(p, decl)
		o := &Obligation{Name: f.key + "/recovers", Kind: "recovers", Fn: f.key, Pkg: p.PkgPath, Props: c.Props,
			Text: "recovers: every panic raised while the body runs is caught by a deferred recover of this function",
			Src:  fmt.Sprintf("%s:%d", shortPath(c.File), c.Line)}
		if ok {
			o.Decided = "unsat"
			o.Output = "recover rule: the body starts with a deferred function literal that calls recover() and stores the error result; the rest of the body starts no goroutine and hands no function literal to a callee"
		} else {
			o.Decided = "sat"
			o.Output = "recover rule: " + why
		}
		f.note("runtime fatal errors (concurrent map access, stack exhaustion, out of memory) are not recoverable and outside the recover rule")
		res.Obls = append(res.Obls, o)
	}
	// tracked calls
	allText := []string{}
	for _, cl := range c.Ensures {
		allText = append(allText, cl.Text)
	}
	for _, cl := range c.Canary {
		allText = append(allText, cl.Text)
	}
	for _, cls := range c.LoopInv {
		for _, cl := range cls {
			allText = append(allText, cl.Text)
		}
	}
	for _, cls := range c.CallReq {
		for _, cl := range cls {
			allText = append(allText, cl.Text)
		}
	}
	for _, t := range allText {
		for _, m := range reNcalls.FindAllStringSubmatch(t, -1) {
			f.trackCall[strings.TrimSpace(m[1])] = true
		}
		for _, m := range reNcallsStr.FindAllStringSubmatch(t, -1) {
			f.trackCall[strings.TrimSpace(m[1])] = true
		}
	}
	for k := range c.CallReq {
		_ = k
	}
	info := p.TypesInfo
	var sig *types.Signature
	if lit != nil {
		sig = info.TypeOf(lit).(*types.Signature)
	} else {
		sig = info.Defs[decl.Name].(*types.Func).Type().(*types.Signature)
	}
	env := &Env{vars: map[types.Object]Val{}, names: map[string]Val{}, heap: map[string]string{}, pc: "true"}
	fr := &frame{c: c, pc: pc, pkg: p, sig: sig, scope: decl.Body, name: c.Key}
	f.fr = fr
	// axioms of the package
	f.emitAxioms(pc, env)
	// receiver and params
	if decl.Recv != nil && len(decl.Recv.List) > 0 && len(decl.Recv.List[0].Names) > 0 {
		if o := info.Defs[decl.Recv.List[0].Names[0]]; o != nil {
			v := f.freshVal(o.Type(), o.Name())
			if _, _, ok := ptrStruct(o.Type()); ok {
				f.emit(fmt.Sprintf("(assert (not (= %s nil_%s)))", v.T, f.S.SortOf(o.Type())))
			}
			env.vars[o] = v
		}
	}
	for _, fl := range decl.Type.Params.List {
		for _, nm := range fl.Names {
			if o := info.Defs[nm]; o != nil {
				env.vars[o] = f.freshVal(o.Type(), nm.Name)
			}
		}
	}
	if decl.Type.Results != nil {
		for _, fl := range decl.Type.Results.List {
			for _, nm := range fl.Names {
				if o := info.Defs[nm]; o != nil {
					env.vars[o] = Val{T: f.S.Zero(o.Type()), Typ: o.Type()}
					fr.results = append(fr.results, o)
				}
			}
		}
	}
	if lit != nil {
		var caps []*types.Var
		seen := map[*types.Var]bool{}
		ast.Inspect(lit.Body, func(nd ast.Node) bool {
			if id, ok := nd.(*ast.Ident); ok {
				if v, ok := info.Uses[id].(*types.Var); ok && !v.IsField() && !seen[v] {
					if v.Pkg() != nil && v.Parent() != v.Pkg().Scope() && (v.Pos() < lit.Pos() || v.Pos() > lit.End()) {
						seen[v] = true
						caps = append(caps, v)
					}
				}
			}
			return true
		})
		for _, v := range caps {
			env.vars[v] = f.freshVal(v.Type(), v.Name())
		}
		f.note("function literal verified with its captured variables as unconstrained inputs")
	}
	for _, name := range sortedKeys(f.trackCall) {
		env.names["calls:"+name] = Val{T: "0", Typ: types.Typ[types.Int]}
	}
	for _, gv := range c.GhostVars {
		if t := f.specType(gv.Type); t != nil {
			env.names["$g:"+gv.Name] = Val{T: f.S.Zero(t), Typ: t}
		}
	}
	f.replay = f.buildReplayInfo(decl, sig, env, lit != nil)
	res.Replayable = f.replay != nil && f.replay.Why == ""
	f.entry = env.clone()
	scEntry := &specCtx{old: f.entry, pos: decl.Body.Lbrace, scope: decl.Body, pcs: pc}
	// type invariants for atomic functions
	var invs []Clause
	if c.Atomic && sig.Recv() != nil {
		if n := namedOf(sig.Recv().Type()); n != nil {
			invs = pc.Invariants[n.Obj().Name()]
		}
	}
	selfBound := map[string]Val{}
	if sig.Recv() != nil {
		if v, ok := env.vars[sig.Recv()]; ok {
			selfBound["self"] = v
		}
	}
	for _, cl := range invs {
		sc := *scEntry
		sc.bound = []map[string]Val{selfBound}
		f.assume(env, f.evalClause(cl, env, &sc))
	}
	for _, cl := range c.Requires {
		f.assume(env, f.evalClause(cl, env, scEntry))
	}
	f.relock = func(e *Env) {
		sc := *scEntry
		sc.old = e
		for _, cl := range invs {
			sc2 := sc
			sc2.bound = []map[string]Val{selfBound}
			f.assume(e, f.evalClause(cl, e, &sc2))
		}
		for _, cl := range c.Requires {
			f.assume(e, f.evalClause(cl, e, &sc))
		}
	}
	f.entry = env.clone()
	scEntry.old = f.entry
	f.obligeSat("pre-cover", "pre-cover", env, "true", "requires (and type invariants) must be satisfiable")

	end := f.block(decl.Body.List, env, nil)
	if !end.dead {
		if sig.Results().Len() == 0 || len(fr.results) > 0 {
			f.doReturn(nil, end, nil)
		}
	}
	f.runDefers(fr)
	exit := f.merge(fr.rets)
	var results []Val
	var resNames []string
	for i := 0; i < sig.Results().Len(); i++ {
		resNames = append(resNames, sig.Results().At(i).Name())
		if v, ok := exit.names[fmt.Sprintf("$ret0.%d", i)]; ok {
			results = append(results, v)
		} else {
			results = append(results, Val{T: f.S.Zero(sig.Results().At(i).Type()), Typ: sig.Results().At(i).Type()})
		}
	}
	scExit := &specCtx{old: f.entry, pos: decl.Body.Rbrace, scope: decl.Body, pcs: pc, results: results, resNames: resNames}
	// at exit, parameters mean their entry values in ensures (Gobra/JML convention): use entry values for params
	for i := 0; i < sig.Params().Len(); i++ {
		o := sig.Params().At(i)
		if v, ok := f.entry.vars[o]; ok {
			if _, isMap := o.Type().Underlying().(*types.Map); isMap {
				continue // maps are references: post-state visible through the parameter
			}
			if _, isSl := o.Type().Underlying().(*types.Slice); isSl {
				continue
			}
			exit.vars[o] = v
		}
	}
	if !exit.dead {
		f.obligeSat("exit-cover", "exit-cover", exit, "true", "some execution must reach a normal return")
	}
	for k, cl := range c.Ensures {
		g := f.evalClause(cl, exit, scExit)
		f.oblige(fmt.Sprintf("ensures.%d", k+1), "ensures", exit, g, cl.Text, fmt.Sprintf("%s:%d", shortPath(cl.File), cl.Line))
	}
	for k, cl := range invs {
		sc := *scExit
		sc.bound = []map[string]Val{selfBound}
		g := f.evalClause(cl, exit, &sc)
		f.oblige(fmt.Sprintf("atomic.inv.%d", k+1), "atomic.inv", exit, g, cl.Text, fmt.Sprintf("%s:%d", shortPath(cl.File), cl.Line))
	}
	for k, cl := range c.Canary {
		g := f.evalClause(cl, exit, scExit)
		f.obligeSat(fmt.Sprintf("canary.%d", k+1), "canary", exit, fmt.Sprintf("(not %s)", g), "must NOT be provable: "+cl.Text)
	}
	if c.HasAssigns {
		f.frameObligation(exit, sig)
	}
	f.finalize()
	res.Obls = append(res.Obls, f.obls...)
	for n := range f.notes {
		res.Notes = append(res.Notes, n)
	}
	sort.Strings(res.Notes)
	res.Errs = append(res.Errs, f.errs...)
	res.Errs = append(res.Errs, f.cerrs...)
	// obligation names keep the identifiers the contract was written with (names.go: renamed receiver / locals)
	if len(c.LoopUnperm) > 0 {
		for _, o := range res.Obls {
			if i := strings.Index(o.Name, "/"); i >= 0 {
				j := strings.LastIndex(o.Name, "/")
				o.Name = o.Name[:j+1] + unpermLoops(o.Name[j+1:], c.LoopUnperm)
				_ = i
			}
		}
	}
	if len(c.Unrename) > 0 || len(c.UnrenameText) > 0 {
		for _, o := range res.Obls {
			o.Name = unrenameObligation(o.Name, f.key, c.Unrename, c.UnrenameText)
			if o.Guard != nil {
				o.Guard.Name = unrenameObligation(o.Guard.Name, f.key, c.Unrename, c.UnrenameText)
			}
		}
	}
	// uniquify obligation names
	seen := map[string]int{}
	for _, o := range res.Obls {
		seen[o.Name]++
		if seen[o.Name] > 1 {
			o.Name = fmt.Sprintf("%s~%d", o.Name, seen[o.Name])
		}
	}
	return res
}

func (f *FuncCtx) emitAxioms(pc *PkgContracts, env *Env) {
	f.emitAxiomsOf(pc, nil, env)
}

func (f *FuncCtx) emitAxiomsOf(pc *PkgContracts, pkg *types.Package, env *Env) {
	if pc == nil {
		return
	}
	for i, ax := range pc.Axioms {
		sc := &specCtx{nolocals: true, pcs: pc, pkg: pkg}
		t := f.evalClause(ax, env, sc)
		if f.clauseErr != "" {
			f.fail("axiom %s cannot be translated: %s", pc.AxiomNames[i], f.clauseErr)
			f.clauseErr = ""
		}
		f.emit(fmt.Sprintf("(assert %s) ; axiom %s", t, pc.AxiomNames[i]))
		f.note("axiom assumed: " + pc.AxiomNames[i] + ": " + ax.Text)
	}
}

// frameObligation: every heap location not listed in 'assigns' is unchanged at exit.
func (f *FuncCtx) frameObligation(exit *Env, sig *types.Signature) {
	allowed := map[string][]string{} // heap name -> allowed base terms
	for _, a := range f.C.Assigns {
		pe, err := parseSpec(a)
		if err != nil {
			f.fail("assigns %q: %v", a, err)
			continue
		}
		sel, ok := pe.(*ast.SelectorExpr)
		if !ok {
			continue // by-reference parameter: nothing to check on the heap
		}
		saved := f.spec
		f.spec = &specCtx{old: f.entry, scope: f.Decl.Body, pcs: f.PC, pos: f.Decl.Body.Rbrace}
		nerr := len(f.errs)
		base := f.specExpr(sel.X, f.entry)
		if len(f.errs) > nerr || base.Typ == nil {
			// not a parameter: a local of the function (evaluated in the exit state)
			f.errs = f.errs[:nerr]
			base = f.specExpr(sel.X, exit)
		}
		f.spec = saved
		if st, el, ok := ptrStruct(base.Typ); ok {
			if obj, _ := lookupFieldAnyPkg(base.Typ, sel.Sel.Name); obj != nil {
				h := f.heapName(el, obj.(*types.Var))
				allowed[h] = append(allowed[h], base.T)
				continue
			}
			if sel.Sel.Name == "all" {
				for i := 0; i < st.NumFields(); i++ {
					h := f.heapName(el, st.Field(i))
					allowed[h] = append(allowed[h], base.T)
				}
				continue
			}
		}
		f.fail("assigns: cannot resolve %s", a)
	}
	var hs []string
	for h := range exit.heap {
		hs = append(hs, h)
	}
	sort.Strings(hs)
	var goals []string
	for _, h := range hs {
		h0 := f.heapGet(f.entry, h)
		h1 := exit.heap[h]
		if h0 == h1 {
			continue
		}
		srt := f.heapSort[h]
		// skolemised: an arbitrary reference that is neither an allowed base nor allocated by this call
		r := f.fresh("r_frame", srt[0])
		var ex []string
		for _, b := range allowed[h] {
			ex = append(ex, fmt.Sprintf("(not (= %s %s))", r, b))
		}
		for _, a := range f.allocs[srt[0]] {
			ex = append(ex, fmt.Sprintf("(not (= %s %s))", r, a))
		}
		g := fmt.Sprintf("(=> (and %s true) (= (select %s %s) (select %s %s)))", strings.Join(ex, " "), h1, r, h0, r)
		goals = append(goals, g)
	}
	goal := "true"
	if len(goals) > 0 {
		goal = "(and " + strings.Join(goals, " ") + ")"
	}
	f.oblige("assigns", "assigns", exit, goal, "assigns "+strings.Join(f.C.Assigns, ", "), fmt.Sprintf("%s:%d", shortPath(f.C.File), f.C.Line))
}

// VerifyLemmas generates obligations for package-level lemmas.
func (E *Engine) VerifyLemmas(p *packages.Package, pc *PkgContracts, prop string) *FuncResult {
	res := &FuncResult{Key: "lemmas", Pkg: p.PkgPath}
	rel := strings.TrimPrefix(p.PkgPath, modulePath+"/")
	for i, lm := range pc.Lemmas {
		if prop != "" && !contains(pc.LemmaProps[i], prop) {
			continue
		}
		c := &FuncContract{Key: "lemma." + pc.LemmaNames[i], Props: pc.LemmaProps[i], LoopInv: map[int][]Clause{}, CallReq: map[string][]Clause{}, Safe: map[string]bool{}}
		f := &FuncCtx{E: E, Pkg: p, C: c, PC: pc, S: NewSorts(modulePath), key: rel + ".lemma",
			callOrd: map[string]int{}, safeOrd: map[string]int{}, trackCall: map[string]bool{}, notes: map[string]bool{},
			heap0: map[string]string{}, heapSort: map[string][2]string{}, globals: map[types.Object]Val{}, pures: map[string]bool{},
			specDone: map[string]bool{}, specBusy: map[string]bool{}, axiomsDone: map[string]bool{}, allocs: map[string][]string{}, aliases: map[types.Object]ast.Expr{}}
		env := &Env{vars: map[types.Object]Val{}, names: map[string]Val{}, heap: map[string]string{}, pc: "true"}
		f.emitAxioms(pc, env)
		sc := &specCtx{nolocals: true, pcs: pc}
		g := f.evalClause(lm, env, sc)
		f.oblige(pc.LemmaNames[i], "lemma", env, g, lm.Text, fmt.Sprintf("%s:%d", shortPath(lm.File), lm.Line))
		f.finalize()
		res.Obls = append(res.Obls, f.obls...)
		for n := range f.notes {
			res.Notes = append(res.Notes, n)
		}
		res.Errs = append(res.Errs, f.errs...)
	}
	return res
}

func contains(xs []string, x string) bool {
	for _, y := range xs {
		if y == x {
			return true
		}
	}
	return false
}

// recoversRule decides the `recovers` obligation structurally, over the real body:
//  1. before any other executable statement, the body defers a function literal that calls the builtin recover()
//     and assigns to a named result of the function;
//  2. the rest of the body contains no `go` statement, and passes no function literal to a callee and creates none
//     that escapes (a literal may only be called directly or deferred): work handed to another goroutine is not
//     protected by this function's recover.
func recoversRule(p *packages.Package, decl *ast.FuncDecl) (bool, string) {
	info := p.TypesInfo
	named := map[types.Object]bool{}
	if decl.Type.Results != nil {
		for _, fl := range decl.Type.Results.List {
			for _, nm := range fl.Names {
				if o := info.Defs[nm]; o != nil && nm.Name != "_" {
					named[o] = true
				}
			}
		}
	}
	var guard *ast.FuncLit
	for _, st := range decl.Body.List {
		if ds, ok := st.(*ast.DeclStmt); ok {
			_ = ds
			continue
		}
		d, ok := st.(*ast.DeferStmt)
		if !ok {
			break
		}
		lit, ok := ast.Unparen(d.Call.Fun).(*ast.FuncLit)
		if !ok || len(d.Call.Args) != 0 {
			continue
		}
		callsRecover, assigns := false, false
		ast.Inspect(lit.Body, func(n ast.Node) bool {
			switch x := n.(type) {
			case *ast.CallExpr:
				if id, ok := ast.Unparen(x.Fun).(*ast.Ident); ok && id.Name == "recover" {
					if _, isB := info.ObjectOf(id).(*types.Builtin); isB {
						callsRecover = true
					}
				}
			case *ast.AssignStmt:
				for _, l := range x.Lhs {
					if id, ok := ast.Unparen(l).(*ast.Ident); ok && named[info.ObjectOf(id)] {
						assigns = true
					}
				}
			}
			return true
		})
		if callsRecover && assigns {
			guard = lit
			break
		}
	}
	if guard == nil {
		return false, "the body does not start with `defer func() { if r := recover(); r != nil { <named result> = ... } }()`"
	}
	why := ""
	ast.Inspect(decl.Body, func(n ast.Node) bool {
		if why != "" {
			return false
		}
		if n == ast.Node(guard) {
			return false
		}
		switch x := n.(type) {
		case *ast.GoStmt:
			why = "a goroutine is started at " + posStr(p.Fset, x.Pos()) + ": panics there are not caught by this function's recover"
		case *ast.CallExpr:
			for _, a := range x.Args {
				if _, isLit := ast.Unparen(a).(*ast.FuncLit); isLit {
					why = "a function literal is handed to " + exprStr(x.Fun) + " at " + posStr(p.Fset, x.Pos()) + ": it may run on another goroutine, outside this function's recover"
				}
			}
		}
		return true
	})
	if why != "" {
		return false, why
	}
	return true, ""
}
