package main

import (
	"sort"
	"fmt"
	"go/ast"
	"go/constant"
	"go/printer"
	"go/token"
	"go/types"
	"math/big"
	"regexp"
	"strconv"
	"strings"
)

// specCtx is set while a contract expression is being translated.
type specCtx struct {
	bound   []map[string]Val
	old     *Env
	pkg     *types.Package
	pcs     *PkgContracts
	results []Val
	resNames []string
	pos     token.Pos
	scope   ast.Node
	nolocals bool
	loopEntry *Env     // state at entry of the loop whose invariant is being evaluated (for atentry(x))
	inOld    int       // >0 while evaluating inside old(...)
	innerPos token.Pos // actual position of the call inside inlined closures (for inner(x))
}

func (f *FuncCtx) info() *types.Info { return f.Pkg.TypesInfo }

func (f *FuncCtx) typeOf(e ast.Expr) types.Type {
	if tv, ok := f.info().Types[e]; ok {
		return tv.Type
	}
	if id, ok := e.(*ast.Ident); ok {
		if o := f.info().ObjectOf(id); o != nil {
			return o.Type()
		}
	}
	return nil
}

func (f *FuncCtx) intLit(n *big.Int, typ types.Type) string {
	if f.S.bv {
		w := 64
		if typ != nil {
			w = intWidth(typ)
		}
		m := new(big.Int).Set(n)
		if m.Sign() < 0 {
			m.Add(m, new(big.Int).Lsh(big.NewInt(1), uint(w)))
		}
		return fmt.Sprintf("(_ bv%s %d)", m.String(), w)
	}
	if n.Sign() < 0 {
		return fmt.Sprintf("(- %s)", new(big.Int).Neg(n).String())
	}
	return n.String()
}

func (f *FuncCtx) constVal(cv constant.Value, typ types.Type) (Val, bool) {
	switch cv.Kind() {
	case constant.Bool:
		if constant.BoolVal(cv) {
			return Val{T: "true", Typ: types.Typ[types.Bool]}, true
		}
		return Val{T: "false", Typ: types.Typ[types.Bool]}, true
	case constant.Int:
		n, ok := new(big.Int).SetString(cv.ExactString(), 10)
		if !ok {
			return Val{}, false
		}
		if typ != nil && isFloat(typ) {
			return f.floatLit(new(big.Float).SetInt(n), typ), true
		}
		if typ == nil || !isInteger(typ) {
			return Val{T: f.intLit(n, nil), Typ: types.Typ[types.Int], S: ""}, true
		}
		return Val{T: f.intLit(n, typ), Typ: typ}, true
	case constant.String:
		return Val{T: f.S.StrLit(constant.StringVal(cv)), Typ: types.Typ[types.String]}, true
	case constant.Float:
		if typ != nil && isInteger(typ) {
			if i, ok := constant.Int64Val(constant.ToInt(cv)); ok {
				return Val{T: f.intLit(big.NewInt(i), typ), Typ: typ}, true
			}
		}
		fl, _ := constant.Float64Val(cv)
		return f.floatLit(big.NewFloat(fl), typ), true
	}
	return Val{}, false
}

func (f *FuncCtx) floatLit(x *big.Float, typ types.Type) Val {
	if typ == nil {
		typ = types.Typ[types.Float64]
	}
	if f.S.bv {
		return Val{T: fmt.Sprintf("((_ to_fp 11 53) RNE %s)", x.Text('f', 20)), Typ: typ}
	}
	return Val{T: x.Text('f', 20), Typ: typ}
}

const nilMarker = "$nil"

// coerce adapts untyped nil / constants / implicit interface conversions to the target type.
func (f *FuncCtx) coerce(v Val, t types.Type) Val {
	if t == nil {
		return v
	}
	if v.T == nilMarker {
		return Val{T: f.S.Zero(t), Typ: t}
	}
	if v.Clo != nil {
		return v
	}
	if v.Typ == nil {
		v.Typ = t
		return v
	}
	if f.S.bv && isInteger(t) && isInteger(v.Typ) && intWidth(t) != intWidth(v.Typ) && v.lit() {
		return v
	}
	if _, isTP := types.Unalias(t).(*types.TypeParam); isTP {
		return v // generic parameter: the value keeps its instantiated type
	}
	// implicit conversion to interface
	if _, isIface := t.Underlying().(*types.Interface); isIface {
		if _, srcIface := v.Typ.Underlying().(*types.Interface); !srcIface {
			if _, isTP := types.Unalias(v.Typ).(*types.TypeParam); !isTP {
				return f.box(v, t)
			}
		}
		if f.S.SortOf(t) != f.sortOfVal(v) {
			return f.box(v, t)
		}
	}
	// assignable values of identical underlying type (an unnamed []byte bound to a parameter of a named slice type):
	// the value takes the declared type, so that its methods resolve
	if v.S == "" && !types.Identical(v.Typ, t) && types.Identical(v.Typ.Underlying(), t.Underlying()) {
		if _, isNamed := types.Unalias(t).(*types.Named); isNamed && f.S.SortOf(v.Typ) == f.S.SortOf(t) {
			v.Typ = t
		}
	}
	return v
}

func (v Val) lit() bool { return strings.HasPrefix(v.T, "(_ bv") || (len(v.T) > 0 && v.T[0] >= '0' && v.T[0] <= '9') }

// box converts a concrete value into an interface value.
func (f *FuncCtx) box(v Val, iface types.Type) Val {
	is := f.S.SortOf(iface)
	vs := f.sortOfVal(v)
	fn := "box." + sanitize(is) + "." + sanitize(vs)
	f.S.declare(fn, fmt.Sprintf("(declare-fun %s (%s) %s)", fn, vs, is))
	inner := v
	inner.Unboxed = nil
	return Val{T: fmt.Sprintf("(%s %s)", fn, v.T), Typ: iface, Unboxed: &inner}
}

func (f *FuncCtx) boolVal(t string) Val { return Val{T: t, Typ: types.Typ[types.Bool]} }

// expr translates an expression to a single value.
func (f *FuncCtx) expr(e ast.Expr, env *Env) Val {
	vs := f.exprMulti(e, env)
	if len(vs) == 0 {
		return Val{T: "zero_Opaque", S: "Opaque"}
	}
	return vs[0]
}

func (f *FuncCtx) exprMulti(e ast.Expr, env *Env) []Val {
	if env.dead {
		t := f.typeOf(e)
		if tup, ok := t.(*types.Tuple); ok {
			var out []Val
			for i := 0; i < tup.Len(); i++ {
				out = append(out, Val{T: f.S.Zero(tup.At(i).Type()), Typ: tup.At(i).Type()})
			}
			return out
		}
		if t == nil {
			return []Val{{T: "false", Typ: types.Typ[types.Bool]}}
		}
		if b, ok := t.(*types.Basic); ok && b.Info()&types.IsUntyped != 0 {
			t = types.Default(t)
		}
		if b, ok := t.(*types.Basic); ok && b.Kind() == types.UntypedNil {
			return []Val{{T: nilMarker}}
		}
		return []Val{{T: f.S.Zero(t), Typ: t}}
	}
	// constants
	if f.spec == nil || true {
		if tv, ok := f.info().Types[e]; ok && tv.Value != nil {
			typ := tv.Type
			if b, ok := typ.(*types.Basic); ok && b.Info()&types.IsUntyped != 0 {
				typ = types.Default(typ)
			}
			if v, ok := f.constVal(tv.Value, typ); ok {
				return []Val{v}
			}
		}
	}
	switch e := e.(type) {
	case *ast.ParenExpr:
		return f.exprMulti(e.X, env)
	case *ast.BasicLit:
		return []Val{f.basicLit(e)}
	case *ast.Ident:
		return []Val{f.ident(e, env)}
	case *ast.UnaryExpr:
		return []Val{f.unary(e, env)}
	case *ast.BinaryExpr:
		if f.spec != nil && e.Op == token.LOR {
			return []Val{f.specExpr(e, env)} // may encode ==> / <==>
		}
		return []Val{f.binary(e, env)}
	case *ast.StarExpr:
		x := f.expr(e.X, env)
		if x.Typ == nil {
			f.fail("deref of untyped value %s", exprStr(e))
			return []Val{x}
		}
		if _, _, ok := ptrStruct(x.Typ); ok {
			return []Val{f.loadStruct(x, env)}
		}
		if p, ok := x.Typ.Underlying().(*types.Pointer); ok {
			f.safety("nil", env, fmt.Sprintf("((_ is some) %s)", x.T), e)
			return []Val{{T: fmt.Sprintf("(the %s)", x.T), Typ: p.Elem()}}
		}
		f.fail("deref of non-pointer %s", exprStr(e))
		return []Val{x}
	case *ast.SelectorExpr:
		return []Val{f.selector(e, env)}
	case *ast.IndexExpr:
		return []Val{f.index(e, env, false)}
	case *ast.IndexListExpr:
		// generic instantiation used as a value
		return []Val{{T: f.funcConst(exprStr(e)), Typ: f.typeOf(e)}}
	case *ast.SliceExpr:
		return []Val{f.sliceExpr(e, env)}
	case *ast.CallExpr:
		return f.call(e, env)
	case *ast.CompositeLit:
		return []Val{f.compositeLit(e, env, false)}
	case *ast.FuncLit:
		return []Val{{T: f.funcConst("lit"), Typ: f.typeOf(e), Clo: &Closure{Lit: e, Name: "func literal"}}}
	case *ast.TypeAssertExpr:
		x := f.expr(e.X, env)
		t := f.typeOf(e)
		if tup, ok := t.(*types.Tuple); ok {
			t = tup.At(0).Type()
		}
		if t == nil {
			t = f.resolveType(e.Type)
		}
		if t == nil {
			f.fail("cannot resolve type in assertion %s", exprStr(e))
			return []Val{x, f.boolVal("true")}
		}
		return []Val{f.typeAssert(x, t), f.isType(x, t)}
	case *ast.KeyValueExpr:
		return f.exprMulti(e.Value, env)
	}
	f.fail("unsupported expression %T (%s)", e, exprStr(e))
	return []Val{{T: "zero_Opaque", S: "Opaque"}}
}

func (f *FuncCtx) typeAssert(x Val, t types.Type) Val {
	xs, ts := f.sortOfVal(x), f.S.SortOf(t)
	fn := "as." + sanitize(ts) + "." + sanitize(xs)
	if !f.S.declared[fn] {
		f.S.declare(fn, fmt.Sprintf("(declare-fun %s (%s) %s)", fn, xs, ts))
		_, ti := t.Underlying().(*types.Interface)
		var xi bool
		if x.Typ != nil {
			_, xi = x.Typ.Underlying().(*types.Interface)
		}
		if ti && xi && xs != ts {
			// asserting to a wider interface and viewing the result at the original interface gives the same value
			bx := "box." + sanitize(xs) + "." + sanitize(ts)
			f.S.declare(bx, fmt.Sprintf("(declare-fun %s (%s) %s)", bx, ts, xs))
			f.S.decls = append(f.S.decls, fmt.Sprintf("(assert (forall ((y!c %s)) (! (= (%s (%s y!c)) y!c) :pattern ((%s y!c)))))", xs, bx, fn, fn))
		}
	}
	return Val{T: fmt.Sprintf("(%s %s)", fn, x.T), Typ: t}
}

func (f *FuncCtx) isType(x Val, t types.Type) Val {
	xs := f.sortOfVal(x)
	fn := "is." + sanitize(typeName(t)) + "." + sanitize(xs)
	f.S.declare(fn, fmt.Sprintf("(declare-fun %s (%s) Bool)", fn, xs))
	return f.boolVal(fmt.Sprintf("(%s %s)", fn, x.T))
}

func (f *FuncCtx) funcConst(name string) string {
	n := "fn." + sanitize(name)
	f.S.declare(n, fmt.Sprintf("(declare-const %s Func)", n))
	return n
}

func (f *FuncCtx) basicLit(e *ast.BasicLit) Val {
	switch e.Kind {
	case token.INT:
		n, ok := new(big.Int).SetString(strings.ReplaceAll(e.Value, "_", ""), 0)
		if !ok {
			f.fail("bad int literal %s", e.Value)
			n = big.NewInt(0)
		}
		return Val{T: f.intLit(n, nil), Typ: nil}
	case token.STRING:
		s, _ := strconv.Unquote(e.Value)
		return Val{T: f.S.StrLit(s), Typ: types.Typ[types.String]}
	case token.CHAR:
		s, _ := strconv.Unquote(e.Value)
		r := []rune(s)
		if len(r) == 0 {
			r = []rune{0}
		}
		return Val{T: f.intLit(big.NewInt(int64(r[0])), nil), Typ: nil}
	case token.FLOAT:
		x, _, _ := big.ParseFloat(e.Value, 10, 64, big.ToNearestEven)
		return f.floatLit(x, nil)
	}
	f.fail("unsupported literal %s", e.Value)
	return Val{T: "0"}
}

// global returns the symbolic constant modelling a package-level variable.
func (f *FuncCtx) global(o types.Object) Val {
	if v, ok := f.globals[o]; ok {
		return v
	}
	n := "g." + sanitize(o.Pkg().Name()+"."+o.Name())
	srt := f.S.SortOf(o.Type())
	f.S.declare(n, fmt.Sprintf("(declare-const %s %s)", n, srt))
	if srt == "Err" {
		f.S.declare(n+"!nn", fmt.Sprintf("(assert (not (= %s nil_Err)))", n))
	}
	v := Val{T: n, Typ: o.Type()}
	f.globals[o] = v
	return v
}

func (f *FuncCtx) ident(e *ast.Ident, env *Env) Val {
	if e.Name == "nil" {
		if o := f.info().ObjectOf(e); o == nil || o == types.Universe.Lookup("nil") {
			return Val{T: nilMarker}
		}
	}
	if f.spec != nil {
		if v, ok := f.specIdent(e.Name, env); ok {
			return v
		}
	}
	switch e.Name {
	case "true":
		return f.boolVal("true")
	case "false":
		return f.boolVal("false")
	}
	o := f.info().ObjectOf(e)
	if o == nil {
		f.fail("unresolved identifier %s", e.Name)
		return Val{T: "zero_Opaque", S: "Opaque"}
	}
	return f.objVal(o, env)
}

func (f *FuncCtx) objVal(o types.Object, env *Env) Val {
	switch o := o.(type) {
	case *types.Const:
		if v, ok := f.constVal(o.Val(), o.Type()); ok {
			return v
		}
	case *types.Var:
		if v, ok := env.vars[o]; ok {
			return v
		}
		if o.Pkg() != nil && o.Parent() == o.Pkg().Scope() {
			return f.global(o)
		}
		// variable not in state (declared in a construct we skipped) -> fresh
		v := f.freshVal(o.Type(), o.Name())
		env.vars[o] = v
		return v
	case *types.Func:
		return Val{T: f.funcConst(o.FullName()), Typ: o.Type()}
	case *types.Nil:
		return Val{T: nilMarker}
	}
	f.fail("unsupported object %s (%T)", o.Name(), o)
	return Val{T: "zero_Opaque", S: "Opaque"}
}

func (f *FuncCtx) unary(e *ast.UnaryExpr, env *Env) Val {
	switch e.Op {
	case token.NOT:
		x := f.expr(e.X, env)
		return f.boolVal(fmt.Sprintf("(not %s)", x.T))
	case token.SUB:
		x := f.expr(e.X, env)
		if f.S.bv && isInteger(x.Typ) {
			return Val{T: fmt.Sprintf("(bvneg %s)", x.T), Typ: x.Typ}
		}
		if x.Typ != nil && isFloat(x.Typ) && f.S.bv {
			return Val{T: fmt.Sprintf("(fp.neg %s)", x.T), Typ: x.Typ}
		}
		return Val{T: fmt.Sprintf("(- %s)", x.T), Typ: x.Typ}
	case token.ADD:
		return f.expr(e.X, env)
	case token.AND:
		// &x
		if cl, ok := e.X.(*ast.CompositeLit); ok {
			return f.compositeLit(cl, env, true)
		}
		t := f.typeOf(e)
		x := f.expr(e.X, env)
		if t == nil {
			t = types.NewPointer(x.Typ)
		}
		if _, _, ok := ptrStruct(t); ok {
			// address of a struct variable: fresh reference holding a copy (aliasing with the variable is not modelled)
			f.note("address-of struct variable modelled as a fresh reference to a copy")
			return f.newRef(t, x, env)
		}
		return Val{T: fmt.Sprintf("(some %s)", x.T), Typ: t}
	case token.ARROW:
		// channel receive: havoc (the channel expression is still evaluated: it may be a call)
		chv := f.expr(e.X, env)
		if call, ok := ast.Unparen(e.X).(*ast.CallExpr); ok && f.spec == nil {
			if sel, ok := ast.Unparen(call.Fun).(*ast.SelectorExpr); ok && sel.Sel.Name == "Done" {
				if rt := f.typeOf(sel.X); rt != nil {
					if n := namedOf(rt); n != nil && n.Obj().Pkg() != nil && n.Obj().Pkg().Path() == "context" {
						cv := f.expr(sel.X, env)
						f.S.declare("pure.context.Err", fmt.Sprintf("(declare-fun pure.context.Err (%s) Err)", f.sortOfVal(cv)))
						f.assume(env, fmt.Sprintf("(not (= (pure.context.Err %s) nil_Err))", cv.T))
					}
				}
			}
		}
		t := f.typeOf(e)
		if tup, ok := t.(*types.Tuple); ok {
			t = tup.At(0).Type()
		}
		if t == nil && chv.Typ != nil {
			if c, ok := chv.Typ.Underlying().(*types.Chan); ok {
				t = c.Elem()
			}
		}
		f.note("channel receive modelled as havoc")
		rv := f.freshVal(t, "recv")
		if f.C != nil && f.spec == nil {
			if cls, ok := f.C.RecvAssume[exprStr(ast.Unparen(e.X))]; ok {
				for _, cl := range cls {
					sc := &specCtx{bound: []map[string]Val{{"a1": rv}}, old: f.entry, pos: e.Pos(), scope: f.fr.scope, pcs: f.PC}
					f.assume(env, f.evalClause(cl, env, sc))
					f.note("assumed about every value received from " + exprStr(e.X) + ": " + cl.Text)
				}
			}
		}
		return rv
	case token.XOR:
		x := f.expr(e.X, env)
		if f.S.bv {
			return Val{T: fmt.Sprintf("(bvnot %s)", x.T), Typ: x.Typ}
		}
		return Val{T: fmt.Sprintf("(bit_xor %s (- 1))", x.T), Typ: x.Typ}
	}
	f.fail("unsupported unary %s", e.Op)
	return Val{T: "zero_Opaque", S: "Opaque"}
}

// newRef allocates a fresh reference initialised from a struct value.
func (f *FuncCtx) newRef(ptrT types.Type, init Val, env *Env) Val {
	st, el, _ := ptrStruct(ptrT)
	srt := f.S.SortOf(ptrT)
	r := f.fresh("ref", srt)
	f.emit(fmt.Sprintf("(assert (not (= %s nil_%s)))", r, srt))
	f.freshFacts(r, srt, env)
	f.allocs[srt] = append(f.allocs[srt], r)
	dsrt, _, isDT := f.S.isDatatypeStruct(el)
	for i := 0; i < st.NumFields(); i++ {
		fl := st.Field(i)
		h := f.heapName(el, fl)
		var fv string
		if init.T == "" {
			fv = f.S.Zero(fl.Type())
		} else if isDT {
			fv = fmt.Sprintf("(%s %s)", f.S.fieldAcc(dsrt, fl.Name()), init.T)
		} else {
			fv = f.extField(init, fl).T
		}
		env.heap[h] = fmt.Sprintf("(store %s %s %s)", f.heapGet(env, h), r, fv)
		env.heap[h] = f.define("H", fmt.Sprintf("(Array %s %s)", srt, f.S.SortOf(fl.Type())), env.heap[h])
	}
	return Val{T: r, Typ: ptrT}
}

// freshFacts states that a newly allocated reference is not stored anywhere in the state that exists at the
// allocation: earlier allocations, local variables (directly, as slice element or as map value) and the
// entry heap. Only true facts are added; anything deeper is left unconstrained (a weaker, still sound, model).
func (f *FuncCtx) freshFacts(r, srt string, env *Env) {
	if f.spec != nil {
		return
	}
	for _, a := range f.allocs[srt] {
		f.emit(fmt.Sprintf("(assert (not (= %s %s)))", r, a))
	}
	var objs []types.Object
	for o := range env.vars {
		objs = append(objs, o)
	}
	sort.Slice(objs, func(i, j int) bool {
		if a, b := f.posKey(objs[i]), f.posKey(objs[j]); a != b {
			return a < b
		}
		return objs[i].Name() < objs[j].Name()
	})
	for _, o := range objs {
		v := env.vars[o]
		if v.Clo != nil || v.Typ == nil || v.T == "" {
			continue
		}
		switch u := v.Typ.Underlying().(type) {
		case *types.Pointer:
			if f.S.SortOf(v.Typ) == srt {
				f.emit(fmt.Sprintf("(assert (not (= %s %s)))", r, v.T))
			}
		case *types.Slice:
			if _, isP := u.Elem().Underlying().(*types.Pointer); isP && f.S.SortOf(u.Elem()) == srt {
				f.emit(fmt.Sprintf("(assert (forall ((i!f Int)) (! (not (= (select (s_arr %s) i!f) %s)) :pattern ((select (s_arr %s) i!f)))))", v.T, r, v.T))
			}
		case *types.Map:
			if _, isP := u.Elem().Underlying().(*types.Pointer); isP && f.S.SortOf(u.Elem()) == srt {
				ks := f.S.SortOf(u.Key())
				f.emit(fmt.Sprintf("(assert (forall ((k!f %s)) (! (not (= (select (m_val %s) k!f) %s)) :pattern ((select (m_val %s) k!f)))))", ks, v.T, r, v.T))
			}
		}
	}
	var hs []string
	for h := range f.heap0 {
		hs = append(hs, h)
	}
	sort.Strings(hs)
	for _, h := range hs {
		if f.heapSort[h][1] == srt {
			f.emit(fmt.Sprintf("(assert (forall ((r!f %s)) (! (not (= (select %s r!f) %s)) :pattern ((select %s r!f)))))", f.heapSort[h][0], f.heap0[h], r, f.heap0[h]))
		}
	}
}

// loadStruct reads the struct value behind a reference (datatype structs only).
func (f *FuncCtx) loadStruct(p Val, env *Env) Val {
	st, el, _ := ptrStruct(p.Typ)
	dsrt, _, isDT := f.S.isDatatypeStruct(el)
	if !isDT {
		// opaque struct value: uninterpreted snapshot
		fn := "deref." + f.S.SortOf(p.Typ)
		es := f.S.SortOf(el)
		f.S.declare(fn, fmt.Sprintf("(declare-fun %s (%s) %s)", fn, f.S.SortOf(p.Typ), es))
		return Val{T: fmt.Sprintf("(%s %s)", fn, p.T), Typ: el}
	}
	var fs []string
	for i := 0; i < st.NumFields(); i++ {
		fl := st.Field(i)
		fs = append(fs, fmt.Sprintf("(select %s %s)", f.heapGet(env, f.heapName(el, fl)), p.T))
	}
	if len(fs) == 0 {
		fs = []string{"0"}
	}
	return Val{T: fmt.Sprintf("(mk_%s %s)", dsrt, strings.Join(fs, " ")), Typ: el}
}

// extField reads a field of an opaque (external) struct value.
func (f *FuncCtx) extField(x Val, fl *types.Var) Val {
	xs := f.sortOfVal(x)
	fn := "fld." + sanitize(xs) + "." + fl.Name()
	f.S.declare(fn, fmt.Sprintf("(declare-fun %s (%s) %s)", fn, xs, f.S.SortOf(fl.Type())))
	return Val{T: fmt.Sprintf("(%s %s)", fn, x.T), Typ: fl.Type()}
}

// field reads field fl of x (struct value or pointer to struct).
func (f *FuncCtx) field(x Val, fl *types.Var, env *Env, at ast.Node) Val {
	if _, el, ok := ptrStruct(x.Typ); ok {
		if at != nil {
			f.safety("nil", env, fmt.Sprintf("(not (= %s nil_%s))", x.T, f.S.SortOf(x.Typ)), at)
		}
		h := f.heapName(el, fl)
		v := Val{T: fmt.Sprintf("(select %s %s)", f.heapGet(env, h), x.T), Typ: fl.Type()}
		if f.spec == nil {
			for _, c := range f.typeInvCheap(v.T, fl.Type()) {
				f.assume(env, c)
			}
		}
		return v
	}
	if srt, _, ok := f.S.isDatatypeStruct(x.Typ); ok {
		return Val{T: fmt.Sprintf("(%s %s)", f.S.fieldAcc(srt, fl.Name()), x.T), Typ: fl.Type()}
	}
	return f.extField(x, fl)
}

// typeInvCheap: only quantifier-free invariants (used on heap reads).
func (f *FuncCtx) typeInvCheap(t string, typ types.Type) []string {
	var out []string
	for _, c := range f.typeInv(t, typ, 2) {
		if !strings.Contains(c, "forall") {
			out = append(out, c)
		}
	}
	return out
}

func (f *FuncCtx) selector(e *ast.SelectorExpr, env *Env) Val {
	// package-qualified identifier
	if id, ok := e.X.(*ast.Ident); ok {
		if pn, ok := f.info().ObjectOf(id).(*types.PkgName); ok {
			o := pn.Imported().Scope().Lookup(e.Sel.Name)
			if o == nil {
				f.fail("unknown %s.%s", id.Name, e.Sel.Name)
				return Val{T: "zero_Opaque", S: "Opaque"}
			}
			return f.objVal(o, env)
		}
		if f.spec != nil && f.info().ObjectOf(id) == nil {
			if p := f.specPkg(id.Name); p != nil {
				o := p.Scope().Lookup(e.Sel.Name)
				if o == nil {
					f.fail("unknown %s.%s", id.Name, e.Sel.Name)
					return Val{T: "zero_Opaque", S: "Opaque"}
				}
				return f.objVal(o, env)
			}
		}
	}
	x := f.expr(e.X, env)
	if x.Clo != nil && f.spec != nil {
		// closure state: uniq.dedup
		if v, ok := f.closureVar(x.Clo, e.Sel.Name, env); ok {
			return v
		}
	}
	if x.Typ == nil {
		f.fail("selector on untyped %s", exprStr(e))
		return Val{T: "zero_Opaque", S: "Opaque"}
	}
	obj, path, _ := types.LookupFieldOrMethod(x.Typ, true, f.Pkg.Types, e.Sel.Name)
	if obj == nil && f.spec != nil && f.spec.pkg != nil {
		obj, path, _ = types.LookupFieldOrMethod(x.Typ, true, f.spec.pkg, e.Sel.Name)
	}
	if obj == nil {
		// unexported field of a type from another package (spec context): search by name
		obj, path = lookupFieldAnyPkg(x.Typ, e.Sel.Name)
	}
	if obj == nil {
		f.fail("no field or method %s on %s", e.Sel.Name, x.Typ)
		return Val{T: "zero_Opaque", S: "Opaque"}
	}
	cur := x
	for i, idx := range path {
		last := i == len(path)-1
		t := cur.Typ
		if p, ok := t.Underlying().(*types.Pointer); ok {
			t = p.Elem()
		}
		st, ok := t.Underlying().(*types.Struct)
		if !ok {
			break
		}
		if last {
			if _, isM := obj.(*types.Func); isM {
				break
			}
		}
		if idx >= st.NumFields() {
			break
		}
		cur = f.field(cur, st.Field(idx), env, e)
	}
	if fn, ok := obj.(*types.Func); ok {
		return Val{T: f.funcConst(fn.FullName()), Typ: fn.Type()}
	}
	return cur
}

func lookupFieldAnyPkg(t types.Type, name string) (types.Object, []int) {
	if p, ok := t.Underlying().(*types.Pointer); ok {
		t = p.Elem()
	}
	st, ok := t.Underlying().(*types.Struct)
	if !ok {
		return nil, nil
	}
	for i := 0; i < st.NumFields(); i++ {
		if st.Field(i).Name() == name {
			return st.Field(i), []int{i}
		}
	}
	return nil, nil
}

func (f *FuncCtx) safety(kind string, env *Env, cond string, at ast.Node) {
	if f.spec != nil || f.C == nil || !f.C.Safe[kind] || f.fr == nil {
		return
	}
	f.safeOrd[kind]++
	f.oblige(fmt.Sprintf("safe.%s#%d", kind, f.safeOrd[kind]), "safe."+kind, env, cond, exprStr(at), posStr(f.Pkg.Fset, at.Pos()))
}

func (f *FuncCtx) index(e *ast.IndexExpr, env *Env, commaOk bool) Val {
	// generic instantiation?
	if tv, ok := f.info().Types[e.X]; ok {
		if _, isSig := tv.Type.(*types.Signature); isSig {
			return Val{T: f.funcConst(exprStr(e)), Typ: f.typeOf(e)}
		}
	}
	x := f.expr(e.X, env)
	return f.indexVal(x, e.Index, env, e)
}

func (f *FuncCtx) indexVal(x Val, idx ast.Expr, env *Env, at ast.Node) Val {
	if x.Typ == nil {
		f.fail("index on untyped value")
		return x
	}
	switch u := x.Typ.Underlying().(type) {
	case *types.Slice:
		i := f.coerce(f.expr(idx, env), types.Typ[types.Int])
		f.safety("index", env, fmt.Sprintf("(and (<= 0 %s) (< %s (s_len %s)))", i.T, i.T, x.T), at)
		return Val{T: fmt.Sprintf("(select (s_arr %s) %s)", x.T, i.T), Typ: u.Elem()}
	case *types.Array:
		i := f.coerce(f.expr(idx, env), types.Typ[types.Int])
		f.safety("index", env, fmt.Sprintf("(and (<= 0 %s) (< %s %d))", i.T, i.T, u.Len()), at)
		if _, ok := byteArray(u); ok {
			v := Val{T: fmt.Sprintf("(at_%s %s %s)", f.S.SortOf(x.Typ), x.T, i.T), Typ: u.Elem()}
			if f.spec == nil && !env.dead {
				f.assume(env, fmt.Sprintf("(and (<= 0 %s) (<= %s 255))", v.T, v.T))
			}
			return v
		}
		return Val{T: fmt.Sprintf("(select %s %s)", x.T, i.T), Typ: u.Elem()}
	case *types.Pointer:
		if a, ok := u.Elem().Underlying().(*types.Array); ok {
			i := f.expr(idx, env)
			return Val{T: fmt.Sprintf("(select (the %s) %s)", x.T, i.T), Typ: a.Elem()}
		}
	case *types.Map:
		k := f.coerce(f.expr(idx, env), u.Key())
		v := Val{T: f.mapGet(x, k, u), Typ: u.Elem()}
		if f.spec == nil && !env.dead {
			// a value loaded from a map is a value of the element type (non-negative slice length, integer range)
			for _, c := range f.typeInvCheap(v.T, u.Elem()) {
				f.assume(env, c)
			}
		}
		return v
	case *types.Basic:
		if u.Info()&types.IsString != 0 {
			i := f.expr(idx, env)
			f.S.declare("str_at", "(declare-fun str_at (Str Int) Int)")
			return Val{T: fmt.Sprintf("(str_at %s %s)", x.T, i.T), Typ: types.Typ[types.Byte]}
		}
	}
	f.fail("unsupported index on %s", x.Typ)
	return x
}

func (f *FuncCtx) mapGet(m Val, k Val, mt *types.Map) string {
	return fmt.Sprintf("(ite (select (m_dom %s) %s) (select (m_val %s) %s) %s)", m.T, k.T, m.T, k.T, f.S.Zero(mt.Elem()))
}

func (f *FuncCtx) mapHas(m Val, k Val) string {
	return fmt.Sprintf("(select (m_dom %s) %s)", m.T, k.T)
}

func (f *FuncCtx) mapStore(m Val, k Val, v Val) string {
	return fmt.Sprintf("(mk_map (store (m_dom %s) %s true) (store (m_val %s) %s %s) (ite (select (m_dom %s) %s) (m_card %s) (+ (m_card %s) 1)))",
		m.T, k.T, m.T, k.T, v.T, m.T, k.T, m.T, m.T)
}

func (f *FuncCtx) mapDelete(m Val, k Val, mt *types.Map) string {
	return fmt.Sprintf("(mk_map (store (m_dom %s) %s false) (store (m_val %s) %s %s) (ite (select (m_dom %s) %s) (- (m_card %s) 1) (m_card %s)))",
		m.T, k.T, m.T, k.T, f.S.Zero(mt.Elem()), m.T, k.T, m.T, m.T)
}

func (f *FuncCtx) sliceExpr(e *ast.SliceExpr, env *Env) Val {
	x := f.expr(e.X, env)
	if x.Typ == nil {
		f.fail("slice expression on untyped value %s", exprStr(e))
		return x
	}
	var elem types.Type
	var arr, ln string
	switch u := x.Typ.Underlying().(type) {
	case *types.Slice:
		elem, arr, ln = u.Elem(), fmt.Sprintf("(s_arr %s)", x.T), fmt.Sprintf("(s_len %s)", x.T)
	case *types.Array:
		if _, ok := byteArray(u); ok {
			srt := f.S.SortOf(x.Typ)
			if e.Low == nil && e.High == nil {
				return Val{T: fmt.Sprintf("(slice_%s %s)", srt, x.T), Typ: types.NewSlice(u.Elem())}
			}
			f.note("partial slice of a byte array abstracted")
			return f.freshVal(types.NewSlice(u.Elem()), "bsl")
		}
		elem, arr, ln = u.Elem(), x.T, fmt.Sprint(u.Len())
	case *types.Basic:
		// string slicing: opaque
		f.note("string slicing modelled as an uninterpreted function")
		f.S.declare("str_slice", "(declare-fun str_slice (Str Int Int) Str)")
		lo, hi := "0", fmt.Sprintf("(str_len %s)", x.T)
		if e.Low != nil {
			lo = f.expr(e.Low, env).T
		}
		if e.High != nil {
			hi = f.expr(e.High, env).T
		}
		return Val{T: fmt.Sprintf("(str_slice %s %s %s)", x.T, lo, hi), Typ: x.Typ}
	default:
		if p, ok := x.Typ.Underlying().(*types.Pointer); ok {
			if a, ok := p.Elem().Underlying().(*types.Array); ok {
				elem, arr, ln = a.Elem(), fmt.Sprintf("(the %s)", x.T), fmt.Sprint(a.Len())
				break
			}
		}
		f.fail("unsupported slice expression on %s", x.Typ)
		return x
	}
	lo, hi := "0", ln
	if e.Low != nil {
		lo = f.coerce(f.expr(e.Low, env), types.Typ[types.Int]).T
	}
	if e.High != nil {
		hi = f.coerce(f.expr(e.High, env), types.Typ[types.Int]).T
	}
	f.safety("index", env, fmt.Sprintf("(and (<= 0 %s) (<= %s %s) (<= %s %s))", lo, lo, hi, hi, ln), e)
	st := types.NewSlice(elem)
	es := f.S.SortOf(elem)
	if lo == "0" {
		return Val{T: fmt.Sprintf("(mk_slice %s %s false)", arr, hi), Typ: st}
	}
	na := f.fresh("sl", fmt.Sprintf("(Array Int %s)", es))
	f.emit(fmt.Sprintf("(assert (forall ((i!q Int)) (! (= (select %s i!q) (select %s (+ i!q %s))) :pattern ((select %s i!q)))))", na, arr, lo, na))
	return Val{T: fmt.Sprintf("(mk_slice %s (- %s %s) false)", na, hi, lo), Typ: st}
}

func (f *FuncCtx) resolveType(e ast.Expr) types.Type {
	if t := f.typeOf(e); t != nil {
		return t
	}
	return f.specType(exprStr(e))
}

func (f *FuncCtx) compositeLit(e *ast.CompositeLit, env *Env, addr bool) Val {
	t := f.typeOf(e)
	if t == nil && e.Type != nil {
		t = f.resolveType(e.Type)
	}
	if t == nil {
		f.fail("composite literal without type: %s", exprStr(e))
		return Val{T: "zero_Opaque", S: "Opaque"}
	}
	var v Val
	switch u := t.Underlying().(type) {
	case *types.Struct:
		vals := make([]Val, u.NumFields())
		set := make([]bool, u.NumFields())
		for i, el := range e.Elts {
			if kv, ok := el.(*ast.KeyValueExpr); ok {
				name := kv.Key.(*ast.Ident).Name
				for j := 0; j < u.NumFields(); j++ {
					if u.Field(j).Name() == name {
						vals[j] = f.coerce(f.exprIn(kv.Value, env, u.Field(j).Type()), u.Field(j).Type())
						set[j] = true
					}
				}
			} else {
				vals[i] = f.coerce(f.exprIn(el, env, u.Field(i).Type()), u.Field(i).Type())
				set[i] = true
			}
		}
		if srt, _, ok := f.S.isDatatypeStruct(t); ok {
			var fs []string
			for j := 0; j < u.NumFields(); j++ {
				if set[j] {
					fs = append(fs, vals[j].T)
				} else {
					fs = append(fs, f.S.Zero(u.Field(j).Type()))
				}
			}
			if len(fs) == 0 {
				fs = []string{"0"}
			}
			v = Val{T: fmt.Sprintf("(mk_%s %s)", srt, strings.Join(fs, " ")), Typ: t}
		} else {
			v = f.freshVal(t, "lit")
			for j := 0; j < u.NumFields(); j++ {
				fv := f.S.Zero(u.Field(j).Type())
				if set[j] {
					fv = vals[j].T
				}
				f.emit(fmt.Sprintf("(assert (= %s %s))", f.extField(v, u.Field(j)).T, fv))
			}
		}
	case *types.Slice:
		es := f.S.SortOf(u.Elem())
		arr := f.S.constArr("Int", es, f.S.Zero(u.Elem()))
		n := 0
		for _, el := range e.Elts {
			if kv, ok := el.(*ast.KeyValueExpr); ok {
				el = kv.Value
				f.fail("keyed slice literal unsupported")
			}
			ev := f.coerce(f.exprIn(el, env, u.Elem()), u.Elem())
			arr = fmt.Sprintf("(store %s %d %s)", arr, n, ev.T)
			n++
		}
		v = Val{T: fmt.Sprintf("(mk_slice %s %d false)", arr, n), Typ: t}
	case *types.Array:
		if _, ok := byteArray(u); ok {
			if len(e.Elts) == 0 {
				v = Val{T: f.S.Zero(t), Typ: t}
				break
			}
			srt := f.S.SortOf(t)
			nv := f.freshVal(t, "barr")
			for i, el := range e.Elts {
				if kv, ok := el.(*ast.KeyValueExpr); ok {
					el = kv.Value
				}
				ev := f.coerce(f.exprIn(el, env, u.Elem()), u.Elem())
				f.emit(fmt.Sprintf("(assert (= (at_%s %s %d) %s))", srt, nv.T, i, ev.T))
			}
			v = nv
			break
		}
		es := f.S.SortOf(u.Elem())
		arr := f.S.constArr("Int", es, f.S.Zero(u.Elem()))
		for i, el := range e.Elts {
			if kv, ok := el.(*ast.KeyValueExpr); ok {
				el = kv.Value
			}
			ev := f.coerce(f.exprIn(el, env, u.Elem()), u.Elem())
			arr = fmt.Sprintf("(store %s %d %s)", arr, i, ev.T)
		}
		v = Val{T: arr, Typ: t}
	case *types.Map:
		m := Val{T: f.S.Zero(t), Typ: t}
		for _, el := range e.Elts {
			kv := el.(*ast.KeyValueExpr)
			k := f.coerce(f.exprIn(kv.Key, env, u.Key()), u.Key())
			val := f.coerce(f.exprIn(kv.Value, env, u.Elem()), u.Elem())
			m = f.name(Val{T: f.mapStore(m, k, val), Typ: t}, "maplit")
		}
		v = m
	default:
		f.fail("unsupported composite literal type %s", t)
		return Val{T: "zero_Opaque", S: "Opaque"}
	}
	if addr {
		pt := types.NewPointer(t)
		if _, _, ok := ptrStruct(pt); ok {
			return f.newRef(pt, v, env)
		}
		return Val{T: fmt.Sprintf("(some %s)", v.T), Typ: pt}
	}
	return v
}

// exprIn evaluates an element of a composite literal whose own type may be elided.
func (f *FuncCtx) exprIn(e ast.Expr, env *Env, want types.Type) Val {
	if cl, ok := e.(*ast.CompositeLit); ok && cl.Type == nil && f.typeOf(cl) == nil {
		// elided type in spec context
		cl2 := *cl
		_ = cl2
	}
	return f.expr(e, env)
}

func (f *FuncCtx) arith(op token.Token, a, b Val, t types.Type) (string, bool) {
	if t != nil && isFloat(t) {
		if f.S.bv {
			switch op {
			case token.ADD:
				return fmt.Sprintf("(fp.add RNE %s %s)", a.T, b.T), true
			case token.SUB:
				return fmt.Sprintf("(fp.sub RNE %s %s)", a.T, b.T), true
			case token.MUL:
				return fmt.Sprintf("(fp.mul RNE %s %s)", a.T, b.T), true
			case token.QUO:
				return fmt.Sprintf("(fp.div RNE %s %s)", a.T, b.T), true
			}
			return "", false
		}
		switch op {
		case token.ADD:
			return fmt.Sprintf("(+ %s %s)", a.T, b.T), true
		case token.SUB:
			return fmt.Sprintf("(- %s %s)", a.T, b.T), true
		case token.MUL:
			return fmt.Sprintf("(* %s %s)", a.T, b.T), true
		case token.QUO:
			return fmt.Sprintf("(/ %s %s)", a.T, b.T), true
		}
		return "", false
	}
	uns := t != nil && isUnsigned(t)
	if f.S.bv {
		switch op {
		case token.ADD:
			return fmt.Sprintf("(bvadd %s %s)", a.T, b.T), true
		case token.SUB:
			return fmt.Sprintf("(bvsub %s %s)", a.T, b.T), true
		case token.MUL:
			return fmt.Sprintf("(bvmul %s %s)", a.T, b.T), true
		case token.QUO:
			if uns {
				return fmt.Sprintf("(bvudiv %s %s)", a.T, b.T), true
			}
			return fmt.Sprintf("(bvsdiv %s %s)", a.T, b.T), true
		case token.REM:
			if uns {
				return fmt.Sprintf("(bvurem %s %s)", a.T, b.T), true
			}
			return fmt.Sprintf("(bvsrem %s %s)", a.T, b.T), true
		case token.AND:
			return fmt.Sprintf("(bvand %s %s)", a.T, b.T), true
		case token.OR:
			return fmt.Sprintf("(bvor %s %s)", a.T, b.T), true
		case token.XOR:
			return fmt.Sprintf("(bvxor %s %s)", a.T, b.T), true
		case token.SHL:
			return fmt.Sprintf("(bvshl %s %s)", a.T, b.T), true
		case token.SHR:
			if uns {
				return fmt.Sprintf("(bvlshr %s %s)", a.T, b.T), true
			}
			return fmt.Sprintf("(bvashr %s %s)", a.T, b.T), true
		case token.AND_NOT:
			return fmt.Sprintf("(bvand %s (bvnot %s))", a.T, b.T), true
		}
		return "", false
	}
	switch op {
	case token.ADD:
		return fmt.Sprintf("(+ %s %s)", a.T, b.T), true
	case token.SUB:
		return fmt.Sprintf("(- %s %s)", a.T, b.T), true
	case token.MUL:
		return fmt.Sprintf("(* %s %s)", a.T, b.T), true
	case token.QUO:
		if uns {
			return fmt.Sprintf("(div %s %s)", a.T, b.T), true
		}
		return fmt.Sprintf("(go_div %s %s)", a.T, b.T), true
	case token.REM:
		if uns {
			return fmt.Sprintf("(mod %s %s)", a.T, b.T), true
		}
		return fmt.Sprintf("(go_mod %s %s)", a.T, b.T), true
	case token.AND:
		return fmt.Sprintf("(bit_and %s %s)", a.T, b.T), true
	case token.OR:
		return fmt.Sprintf("(bit_or %s %s)", a.T, b.T), true
	case token.XOR:
		return fmt.Sprintf("(bit_xor %s %s)", a.T, b.T), true
	case token.SHL:
		return fmt.Sprintf("(bit_shl %s %s)", a.T, b.T), true
	case token.SHR:
		return fmt.Sprintf("(bit_shr %s %s)", a.T, b.T), true
	case token.AND_NOT:
		return fmt.Sprintf("(bit_andnot %s %s)", a.T, b.T), true
	}
	return "", false
}

func (f *FuncCtx) cmp(op token.Token, a, b Val) (string, bool) {
	t := a.Typ
	if t == nil {
		t = b.Typ
	}
	if t != nil && isFloat(t) && f.S.bv {
		m := map[token.Token]string{token.LSS: "fp.lt", token.LEQ: "fp.leq", token.GTR: "fp.gt", token.GEQ: "fp.geq"}
		if s, ok := m[op]; ok {
			return fmt.Sprintf("(%s %s %s)", s, a.T, b.T), true
		}
		return "", false
	}
	if f.S.bv && t != nil && isInteger(t) {
		var m map[token.Token]string
		if isUnsigned(t) {
			m = map[token.Token]string{token.LSS: "bvult", token.LEQ: "bvule", token.GTR: "bvugt", token.GEQ: "bvuge"}
		} else {
			m = map[token.Token]string{token.LSS: "bvslt", token.LEQ: "bvsle", token.GTR: "bvsgt", token.GEQ: "bvsge"}
		}
		if s, ok := m[op]; ok {
			return fmt.Sprintf("(%s %s %s)", s, a.T, b.T), true
		}
		return "", false
	}
	if t != nil && isString(t) {
		f.S.declare("str_lt", "(declare-fun str_lt (Str Str) Bool)")
		switch op {
		case token.LSS:
			return fmt.Sprintf("(str_lt %s %s)", a.T, b.T), true
		case token.GTR:
			return fmt.Sprintf("(str_lt %s %s)", b.T, a.T), true
		case token.LEQ:
			return fmt.Sprintf("(not (str_lt %s %s))", b.T, a.T), true
		case token.GEQ:
			return fmt.Sprintf("(not (str_lt %s %s))", a.T, b.T), true
		}
	}
	m := map[token.Token]string{token.LSS: "<", token.LEQ: "<=", token.GTR: ">", token.GEQ: ">="}
	if s, ok := m[op]; ok {
		return fmt.Sprintf("(%s %s %s)", s, a.T, b.T), true
	}
	return "", false
}

// eq builds equality of two values (handles nil).
func (f *FuncCtx) eq(a, b Val) string {
	if a.T == nilMarker && b.T == nilMarker {
		return "true"
	}
	if a.T == nilMarker {
		a, b = b, a
	}
	if b.T == nilMarker {
		if a.Typ != nil {
			switch a.Typ.Underlying().(type) {
			case *types.Slice:
				return fmt.Sprintf("(s_nil %s)", a.T)
			case *types.Map:
				f.note("map nil-ness is not modelled (m == nil treated as unknown)")
				return f.fresh("mapnil", "Bool")
			}
			if a.Clo != nil {
				return "false"
			}
			return fmt.Sprintf("(= %s %s)", a.T, f.S.Zero(a.Typ))
		}
		return "false"
	}
	if a.Typ == nil && b.Typ != nil {
		a = f.coerce(a, b.Typ)
	} else if b.Typ == nil && a.Typ != nil {
		b = f.coerce(b, a.Typ)
	}
	if a.Typ != nil && b.Typ != nil {
		sa, sb := f.sortOfVal(a), f.sortOfVal(b)
		if sa != sb {
			// interface vs concrete comparison
			if _, ok := a.Typ.Underlying().(*types.Interface); ok {
				b = f.box(b, a.Typ)
			} else if _, ok := b.Typ.Underlying().(*types.Interface); ok {
				a = f.box(a, b.Typ)
			} else {
				f.fail("equality between different sorts %s and %s", sa, sb)
				return "false"
			}
		}
	}
	if isNumLit(a.T) && isNumLit(b.T) {
		if a.T == b.T {
			return "true"
		}
		return "false"
	}
	return fmt.Sprintf("(= %s %s)", a.T, b.T)
}

func isNumLit(t string) bool {
	if t == "" {
		return false
	}
	for _, r := range t {
		if r < '0' || r > '9' {
			return false
		}
	}
	return true
}

func (f *FuncCtx) binary(e *ast.BinaryExpr, env *Env) Val {
	switch e.Op {
	case token.LAND, token.LOR:
		a := f.expr(e.X, env)
		// the right operand is evaluated only under the guard (calls may have effects / obligations)
		if hasCall(e.Y) && f.spec == nil {
			g := a.T
			if e.Op == token.LOR {
				g = fmt.Sprintf("(not %s)", a.T)
			}
			envR := env.clone()
			f.assume(envR, g)
			b := f.expr(e.Y, envR)
			envL := env.clone()
			f.assume(envL, fmt.Sprintf("(not %s)", g))
			m := f.merge([]*Env{envR, envL})
			*env = *m
			if e.Op == token.LAND {
				return f.boolVal(fmt.Sprintf("(and %s %s)", a.T, b.T))
			}
			return f.boolVal(fmt.Sprintf("(or %s %s)", a.T, b.T))
		}
		b := f.expr(e.Y, env)
		if e.Op == token.LAND {
			return f.boolVal(fmt.Sprintf("(and %s %s)", a.T, b.T))
		}
		return f.boolVal(fmt.Sprintf("(or %s %s)", a.T, b.T))
	}
	a := f.expr(e.X, env)
	b := f.expr(e.Y, env)
	switch e.Op {
	case token.EQL:
		return f.boolVal(f.eq(a, b))
	case token.NEQ:
		return f.boolVal(fmt.Sprintf("(not %s)", f.eq(a, b)))
	case token.LSS, token.LEQ, token.GTR, token.GEQ:
		if a.Typ == nil {
			a = f.coerce(a, b.Typ)
		} else if b.Typ == nil {
			b = f.coerce(b, a.Typ)
		}
		a, b = f.unifyWidth(a, b)
		if s, ok := f.cmp(e.Op, a, b); ok {
			return f.boolVal(s)
		}
	default:
		t := f.typeOf(e)
		if t == nil {
			t = a.Typ
			if t == nil {
				t = b.Typ
			}
		}
		if bt, ok := t.(*types.Basic); ok && bt.Info()&types.IsUntyped != 0 {
			t = types.Default(t)
		}
		if t == nil {
			t = types.Typ[types.Int]
		}
		if e.Op != token.SHL && e.Op != token.SHR {
			a, b = f.coerce(a, t), f.coerce(b, t)
			a, b = f.unifyWidth(a, b)
		} else if f.S.bv {
			b = f.bvResize(b, intWidth(t), false)
		}
		if t != nil && isString(t) && e.Op == token.ADD {
			f.S.declare("str_concat", "(declare-fun str_concat (Str Str) Str)")
			return Val{T: fmt.Sprintf("(str_concat %s %s)", a.T, b.T), Typ: t}
		}
		if (e.Op == token.QUO || e.Op == token.REM) && t != nil && isInteger(t) {
			z := "0"
			if f.S.bv {
				z = fmt.Sprintf("(_ bv0 %d)", intWidth(t))
			}
			f.safety("div", env, fmt.Sprintf("(not (= %s %s))", b.T, z), e)
		}
		// shifts by constants in Int mode
		if !f.S.bv && (e.Op == token.SHL || e.Op == token.SHR) {
			if k, err := strconv.Atoi(b.T); err == nil && k >= 0 && k < 63 {
				p := new(big.Int).Lsh(big.NewInt(1), uint(k)).String()
				if e.Op == token.SHL {
					return Val{T: fmt.Sprintf("(* %s %s)", a.T, p), Typ: t}
				}
				return Val{T: fmt.Sprintf("(div %s %s)", a.T, p), Typ: t}
			}
		}
		if s, ok := f.arith(e.Op, a, b, t); ok {
			return Val{T: s, Typ: t}
		}
	}
	f.fail("unsupported binary %s in %s", e.Op, exprStr(e))
	return Val{T: "zero_Opaque", S: "Opaque"}
}

func (f *FuncCtx) unifyWidth(a, b Val) (Val, Val) {
	if !f.S.bv || a.Typ == nil || b.Typ == nil || !isInteger(a.Typ) || !isInteger(b.Typ) {
		return a, b
	}
	wa, wb := intWidth(a.Typ), intWidth(b.Typ)
	if wa == wb {
		return a, b
	}
	if wa < wb {
		return Val{T: f.bvResize(a, wb, !isUnsigned(a.Typ)).T, Typ: b.Typ}, b
	}
	return a, Val{T: f.bvResize(b, wa, !isUnsigned(b.Typ)).T, Typ: a.Typ}
}

func (f *FuncCtx) bvResize(v Val, w int, signed bool) Val {
	cw := 64
	if v.Typ != nil {
		cw = intWidth(v.Typ)
	}
	if strings.HasPrefix(v.T, "(_ bv") {
		var n string
		var ow int
		fmt.Sscanf(v.T, "(_ bv%s %d)", &n, &ow)
		bi, _ := new(big.Int).SetString(n, 10)
		if bi != nil {
			return Val{T: fmt.Sprintf("(_ bv%s %d)", bi.String(), w), Typ: v.Typ}
		}
	}
	switch {
	case cw == w:
		return v
	case cw < w:
		if signed {
			return Val{T: fmt.Sprintf("((_ sign_extend %d) %s)", w-cw, v.T), Typ: v.Typ}
		}
		return Val{T: fmt.Sprintf("((_ zero_extend %d) %s)", w-cw, v.T), Typ: v.Typ}
	default:
		return Val{T: fmt.Sprintf("((_ extract %d 0) %s)", w-1, v.T), Typ: v.Typ}
	}
}

// convert implements T(x).
func (f *FuncCtx) convert(x Val, t types.Type) Val {
	if x.T == nilMarker {
		return f.coerce(x, t)
	}
	if x.Typ == nil {
		// untyped constant
		if isFloat(t) {
			if f.S.bv {
				return Val{T: fmt.Sprintf("((_ to_fp 11 53) RNE %s.0)", x.T), Typ: t}
			}
			return Val{T: fmt.Sprintf("(to_real %s)", x.T), Typ: t}
		}
		if f.S.bv && isInteger(t) {
			return f.bvResize(Val{T: x.T, Typ: types.Typ[types.Int64]}, intWidth(t), true).retype(t)
		}
		return Val{T: x.T, Typ: t}
	}
	switch {
	case isInteger(t) && isInteger(x.Typ):
		if f.S.bv {
			return f.bvResize(x, intWidth(t), !isUnsigned(x.Typ)).retype(t)
		}
		su, tu := isUnsigned(x.Typ), isUnsigned(t)
		ws, wt := intWidth(x.Typ), intWidth(t)
		switch {
		case !su && tu:
			return Val{T: fmt.Sprintf("(ite (>= %s 0) %s (+ %s %s))", x.T, x.T, x.T, pow2(wt)), Typ: t}
		case su && !tu && wt <= ws:
			return Val{T: fmt.Sprintf("(ite (< %s %s) %s (- %s %s))", x.T, pow2(wt-1), x.T, x.T, pow2(wt)), Typ: t}
		case wt < ws:
			f.note("narrowing integer conversion treated as identity")
		}
		return Val{T: x.T, Typ: t}
	case isFloat(t) && isInteger(x.Typ):
		if f.S.bv {
			if isUnsigned(x.Typ) {
				return Val{T: fmt.Sprintf("((_ to_fp_unsigned 11 53) RNE %s)", x.T), Typ: t}
			}
			return Val{T: fmt.Sprintf("((_ to_fp 11 53) RNE %s)", x.T), Typ: t}
		}
		return Val{T: fmt.Sprintf("(to_real %s)", x.T), Typ: t}
	case isInteger(t) && isFloat(x.Typ):
		if f.S.bv {
			if isUnsigned(t) {
				return Val{T: fmt.Sprintf("((_ fp.to_ubv %d) RTZ %s)", intWidth(t), x.T), Typ: t}
			}
			return Val{T: fmt.Sprintf("((_ fp.to_sbv %d) RTZ %s)", intWidth(t), x.T), Typ: t}
		}
		f.note("float to int conversion modelled with to_int (floor)")
		return Val{T: fmt.Sprintf("(to_int %s)", x.T), Typ: t}
	case isFloat(t) && isFloat(x.Typ):
		return x.retype(t)
	}
	ss, ts := f.sortOfVal(x), f.S.SortOf(t)
	if ss == ts {
		return x.retype(t)
	}
	if _, ok := t.Underlying().(*types.Interface); ok {
		return f.box(x, t)
	}
	// []byte -> *[N]byte (and -> [N]byte): an array holding the first N bytes of the slice (Go panics if it is shorter)
	if sl, ok := x.Typ.Underlying().(*types.Slice); ok && isByte(sl.Elem()) {
		var at types.Type
		ptr := false
		if p, isP := t.Underlying().(*types.Pointer); isP {
			at, ptr = p.Elem(), true
		} else {
			at = t
		}
		if a, isA := at.Underlying().(*types.Array); isA {
			if n, isB := byteArray(a); isB {
				srt := f.S.SortOf(at)
				// a declared conversion function; its element-wise meaning is stated per operand (a global axiom
				// quantifying over slices defeats the solvers' model-based instantiation), and not at all when the
				// operand mentions a variable bound by an enclosing quantifier of a contract expression
				cf := "arrconv." + sanitize(ss) + ".to." + sanitize(srt)
				f.S.declare(cf, fmt.Sprintf("(declare-fun %s (%s) %s)", cf, ss, srt))
				arr := fmt.Sprintf("(%s %s)", cf, x.T)
				if !reBoundVar.MatchString(x.T) {
					f.emit(fmt.Sprintf("(assert (forall ((i!c Int)) (! (=> (and (<= 0 i!c) (< i!c %d)) (= (at_%s %s i!c) (select (s_arr %s) i!c))) :pattern ((at_%s %s i!c)))))", n, srt, arr, x.T, srt, arr))
				}
				if ptr {
					return Val{T: fmt.Sprintf("(some %s)", arr), Typ: t}
				}
				return Val{T: arr, Typ: t}
			}
		}
	}
	// struct -> struct of another named type with the same field sequence (Go allows the conversion only then):
	// the target's constructor applied to the source's fields, field by field
	if ssrt, sst, ok1 := f.S.isDatatypeStruct(x.Typ); ok1 {
		if tsrt, tst, ok2 := f.S.isDatatypeStruct(t); ok2 && sst.NumFields() == tst.NumFields() {
			args := make([]string, 0, sst.NumFields())
			same := true
			for i := 0; i < sst.NumFields(); i++ {
				sf, tf := sst.Field(i), tst.Field(i)
				if f.S.SortOf(sf.Type()) != f.S.SortOf(tf.Type()) {
					same = false
					break
				}
				args = append(args, fmt.Sprintf("(%s %s)", f.S.fieldAcc(ssrt, sf.Name()), x.T))
			}
			if same {
				if len(args) == 0 {
					return Val{T: "mk_" + tsrt, Typ: t}
				}
				return Val{T: fmt.Sprintf("(mk_%s %s)", tsrt, strings.Join(args, " ")), Typ: t}
			}
		}
	}
	// string <-> bytes and other representation changes: uninterpreted conversion
	fn := "conv." + sanitize(ss) + ".to." + sanitize(ts)
	f.S.declare(fn, fmt.Sprintf("(declare-fun %s (%s) %s)", fn, ss, ts))
	return Val{T: fmt.Sprintf("(%s %s)", fn, x.T), Typ: t}
}

var reBoundVar = regexp.MustCompile(`!q\d+\b|![ec]\d*\b`)

func (v Val) retype(t types.Type) Val { v.Typ = t; return v }

func hasCall(e ast.Expr) bool {
	found := false
	ast.Inspect(e, func(n ast.Node) bool {
		if _, ok := n.(*ast.CallExpr); ok {
			found = true
		}
		return !found
	})
	return found
}

func exprStr(n ast.Node) string {
	if n == nil {
		return ""
	}
	if e, ok := n.(ast.Expr); ok {
		return types.ExprString(e)
	}
	var b strings.Builder
	_ = printer.Fprint(&b, token.NewFileSet(), n)
	return b.String()
}

func isByte(t types.Type) bool {
	b, ok := t.Underlying().(*types.Basic)
	return ok && (b.Kind() == types.Uint8 || b.Kind() == types.Byte)
}
