package main

// Replay of solver models on the real code (scalar concretisation).
//
// When an `ensures` or `safe.*` obligation of a function is refuted by a solver (sat, with a model), and the
// function's receiver and parameters are made of integers, booleans, byte arrays, slices of integers/bytes and
// structs of those, the entry values are read back from the model with (get-value ...), a Go test is generated
// that calls the REAL function (in-package, injected with `go test -overlay`, nothing is written to the
// repository) with exactly those values, evaluates the contract's requires clauses and the refuted clause in Go,
// and reports whether the real code violates the clause. Only then does the VIOLATION line omit the
// `no-failing-input-found` suffix. Everything outside this class (interfaces, maps, pointers, strings, ghost
// state, call counters, quantified clauses) is reported with the model attached and the suffix kept.

import (
	"context"
	"fmt"
	"go/ast"
	"go/token"
	"go/types"
	"math/big"
	"os"
	"os/exec"
	"path/filepath"
	"sort"
	"strconv"
	"strings"
	"time"
)

type replayLeaf struct {
	GoPath string // assignable Go expression, e.g. "s.Slot" or "root[3]"
	Term   string // SMT term denoting its entry value
	Kind   string // "int", "bool"
	Signed bool
	Bits   int
}

type replaySlice struct {
	GoPath   string
	Term     string
	ElemType string // Go element type as written in the test
	Signed   bool
	Bits     int
}

type replayAlloc struct {
	GoPath  string
	Type    string
	NilTerm string // SMT term that is true iff the pointer is nil in the model (empty: never nil)
}

type replayVar struct {
	Name string
	Type string // Go type as written inside the package under test
}

type ReplayInfo struct {
	PkgDir   string
	PkgName  string
	Vars     []replayVar
	Leaves   []replayLeaf
	Slices   []replaySlice
	Call     string
	NRes     int
	ResNames []string
	Requires []string
	Imports  map[string]string // name -> path
	BV       bool
	recvName string
	Why      string // non-empty: not replayable, reason
	Unset    []string // inputs left at their Go zero value (no concretisation for their type)
	Allocs   []replayAlloc // pointers to structs: allocated unless nil in the model
	Makes    []replayAlloc // maps that are not concretised: created empty (writes to a nil map would panic)
}

// buildReplayInfo decides whether decl is in the replayable class and records how to rebuild its inputs.
func (f *FuncCtx) buildReplayInfo(decl *ast.FuncDecl, sig *types.Signature, env *Env, isLit bool) *ReplayInfo {
	ri := &ReplayInfo{Imports: map[string]string{}, BV: f.S.bv, PkgName: f.Pkg.Types.Name()}
	if isLit {
		ri.Why = "function literal (its captured variables cannot be set from a test)"
		return ri
	}
	if sig.TypeParams() != nil || sig.RecvTypeParams() != nil {
		ri.Why = "generic function"
		return ri
	}
	rel := strings.TrimPrefix(f.Pkg.PkgPath, modulePath)
	ri.PkgDir = strings.TrimPrefix(rel, "/")
	if ri.PkgDir == "" {
		ri.PkgDir = "."
	}
	qual := func(p *types.Package) string {
		if p == f.Pkg.Types {
			return ""
		}
		name := "vr_" + sanitizeIdent(p.Path())
		ri.Imports[name] = p.Path()
		return name
	}
	var add func(goPath, term string, t types.Type, depth int) bool
	add = func(goPath, term string, t types.Type, depth int) bool {
		if depth == 0 {
			switch pt := types.Unalias(t).Underlying().(type) {
			case *types.Pointer:
				if _, _, ok := f.S.isDatatypeStruct(pt.Elem()); !ok {
					ri.Why = fmt.Sprintf("%s has type %s (only pointers to structs of this module are concretised)", goPath, t)
					return false
				}
			case *types.Interface, *types.Map, *types.Chan, *types.Signature:
				ri.Why = fmt.Sprintf("%s has type %s (references, interfaces, maps and functions are not concretised)", goPath, t)
				return false
			case *types.Slice:
				if b, ok := types.Unalias(types.Unalias(t).Underlying().(*types.Slice).Elem()).Underlying().(*types.Basic); !ok || b.Info()&types.IsInteger == 0 || f.S.bv {
					ri.Why = fmt.Sprintf("%s has type %s (only slices of integers are concretised)", goPath, t)
					return false
				}
			}
		}
		if depth > 4 {
			ri.Why = "nesting too deep at " + goPath
			return false
		}
		switch u := types.Unalias(t).Underlying().(type) {
		case *types.Basic:
			switch {
			case u.Info()&types.IsBoolean != 0:
				ri.Leaves = append(ri.Leaves, replayLeaf{GoPath: goPath, Term: term, Kind: "bool"})
				return true
			case u.Info()&types.IsInteger != 0:
				ri.Leaves = append(ri.Leaves, replayLeaf{GoPath: goPath, Term: term, Kind: "int", Signed: u.Info()&types.IsUnsigned == 0, Bits: intWidth(u)})
				return true
			}
			ri.Unset = append(ri.Unset, goPath)
			return true
		case *types.Array:
			if n, ok := byteArray(u); ok && n <= 96 {
				srt := f.S.SortOf(t)
				for i := 0; i < int(n); i++ {
					ri.Leaves = append(ri.Leaves, replayLeaf{GoPath: fmt.Sprintf("%s[%d]", goPath, i), Term: fmt.Sprintf("(at_%s %s %d)", srt, term, i), Kind: "int", Bits: 8})
				}
				return true
			}
			ri.Unset = append(ri.Unset, goPath)
			return true
		case *types.Slice:
			if b, ok := types.Unalias(u.Elem()).Underlying().(*types.Basic); ok && b.Info()&types.IsInteger != 0 && !f.S.bv {
				ri.Slices = append(ri.Slices, replaySlice{GoPath: goPath, Term: term, ElemType: types.TypeString(u.Elem(), qual), Signed: b.Info()&types.IsUnsigned == 0, Bits: intWidth(b)})
				return true
			}
			ri.Unset = append(ri.Unset, goPath)
			return true
		case *types.Pointer:
			_, st, ok := f.S.isDatatypeStruct(u.Elem())
			if !ok || depth > 2 {
				ri.Unset = append(ri.Unset, goPath)
				return true
			}
			nilTerm := fmt.Sprintf("(= %s nil_%s)", term, f.S.SortOf(t))
			if depth == 0 && goPath == ri.recvName {
				nilTerm = ""
			}
			ri.Allocs = append(ri.Allocs, replayAlloc{GoPath: goPath, Type: types.TypeString(u.Elem(), qual), NilTerm: nilTerm})
			for i := 0; i < st.NumFields(); i++ {
				fl := st.Field(i)
				if fl.Name() == "_" {
					continue
				}
				if !fl.Exported() && fl.Pkg() != f.Pkg.Types {
					ri.Unset = append(ri.Unset, goPath+"."+fl.Name())
					continue
				}
				h := f.heapName(u.Elem(), fl)
				if !add(goPath+"."+fl.Name(), fmt.Sprintf("(select %s %s)", f.heapGet(env, h), term), fl.Type(), depth+1) {
					return false
				}
			}
			return true
		case *types.Map:
			ri.Makes = append(ri.Makes, replayAlloc{GoPath: goPath, Type: types.TypeString(t, qual)})
			ri.Unset = append(ri.Unset, goPath+" (empty map)")
			return true
		case *types.Struct:
			srt, st, ok := f.S.isDatatypeStruct(t)
			if !ok {
				ri.Unset = append(ri.Unset, goPath)
				return true
			}
			for i := 0; i < st.NumFields(); i++ {
				fl := st.Field(i)
				if fl.Name() == "_" {
					continue
				}
				if !fl.Exported() && fl.Pkg() != f.Pkg.Types {
					ri.Unset = append(ri.Unset, goPath+"."+fl.Name())
					continue
				}
				if !add(goPath+"."+fl.Name(), fmt.Sprintf("(%s %s)", f.S.fieldAcc(srt, fl.Name()), term), fl.Type(), depth+1) {
					return false
				}
			}
			return true
		}
		ri.Unset = append(ri.Unset, goPath)
		return true
	}
	var args []string
	recvName := ""
	if decl.Recv != nil && len(decl.Recv.List) > 0 {
		rt := sig.Recv().Type()
		recvName = "vrRecv"
		if len(decl.Recv.List[0].Names) > 0 && decl.Recv.List[0].Names[0].Name != "_" {
			recvName = decl.Recv.List[0].Names[0].Name
			ri.recvName = recvName
			if o := f.Pkg.TypesInfo.Defs[decl.Recv.List[0].Names[0]]; o != nil {
				v, ok := env.vars[o]
				if !ok || !add(recvName, v.T, rt, 0) {
					if ri.Why == "" {
						ri.Why = "receiver not modelled"
					}
					return ri
				}
			}
		} else if !pointerFree(rt, map[types.Type]bool{}) {
			ri.Why = "anonymous receiver that is not a plain value"
			return ri
		}
		ri.Vars = append(ri.Vars, replayVar{recvName, types.TypeString(rt, qual)})
	}
	for _, fl := range decl.Type.Params.List {
		if len(fl.Names) == 0 {
			ri.Why = "unnamed parameter"
			return ri
		}
		for _, nm := range fl.Names {
			o := f.Pkg.TypesInfo.Defs[nm]
			if o == nil || nm.Name == "_" {
				ri.Why = "blank parameter"
				return ri
			}
			if _, isEll := fl.Type.(*ast.Ellipsis); isEll {
				ri.Why = "variadic parameter"
				return ri
			}
			v, ok := env.vars[o]
			if !ok || !add(nm.Name, v.T, o.Type(), 0) {
				if ri.Why == "" {
					ri.Why = "parameter not modelled"
				}
				return ri
			}
			ri.Vars = append(ri.Vars, replayVar{nm.Name, types.TypeString(o.Type(), qual)})
			args = append(args, nm.Name)
		}
	}
	ri.NRes = sig.Results().Len()
	for i := 0; i < sig.Results().Len(); i++ {
		ri.ResNames = append(ri.ResNames, sig.Results().At(i).Name())
	}
	if recvName != "" {
		ri.Call = fmt.Sprintf("%s.%s(%s)", recvName, decl.Name.Name, strings.Join(args, ", "))
	} else {
		ri.Call = fmt.Sprintf("%s(%s)", decl.Name.Name, strings.Join(args, ", "))
	}
	for _, cl := range f.C.Requires {
		ri.Requires = append(ri.Requires, cl.Text)
	}
	return ri
}

func sanitizeIdent(s string) string {
	var b strings.Builder
	for _, r := range s {
		if r >= 'a' && r <= 'z' || r >= 'A' && r <= 'Z' || r >= '0' && r <= '9' {
			b.WriteRune(r)
		} else {
			b.WriteByte('_')
		}
	}
	return b.String()
}

// specToGo prints a contract expression as Go source (only the quantifier-free, ghost-free fragment).
func specToGo(e ast.Expr, pkgImports map[string]string, used map[string]string) (string, error) {
	switch x := e.(type) {
	case *ast.ParenExpr:
		s, err := specToGo(x.X, pkgImports, used)
		return "(" + s + ")", err
	case *ast.BinaryExpr:
		if x.Op == token.LOR {
			ops := flattenOr(x)
			has := false
			for _, o := range ops {
				if isMarker(o, "_IMP_") || isMarker(o, "_IFF_") {
					has = true
				}
			}
			if has {
				split := func(ops []ast.Expr, m string) [][]ast.Expr {
					var out [][]ast.Expr
					cur := []ast.Expr{}
					for _, o := range ops {
						if isMarker(o, m) {
							out = append(out, cur)
							cur = []ast.Expr{}
						} else {
							cur = append(cur, o)
						}
					}
					return append(out, cur)
				}
				orOf := func(ops []ast.Expr) (string, error) {
					var ts []string
					for _, o := range ops {
						s, err := specToGo(o, pkgImports, used)
						if err != nil {
							return "", err
						}
						ts = append(ts, "("+s+")")
					}
					return strings.Join(ts, " || "), nil
				}
				impOf := func(ops []ast.Expr) (string, error) {
					parts := split(ops, "_IMP_")
					t, err := orOf(parts[len(parts)-1])
					if err != nil {
						return "", err
					}
					for i := len(parts) - 2; i >= 0; i-- {
						a, err := orOf(parts[i])
						if err != nil {
							return "", err
						}
						t = fmt.Sprintf("vrImp(func() bool { return %s }, func() bool { return %s })", a, t)
					}
					return t, nil
				}
				iffs := split(ops, "_IFF_")
				t, err := impOf(iffs[0])
				if err != nil {
					return "", err
				}
				for _, p := range iffs[1:] {
					u, err := impOf(p)
					if err != nil {
						return "", err
					}
					t = fmt.Sprintf("((%s) == (%s))", t, u)
				}
				return t, nil
			}
		}
		a, err := specToGo(x.X, pkgImports, used)
		if err != nil {
			return "", err
		}
		b, err := specToGo(x.Y, pkgImports, used)
		if err != nil {
			return "", err
		}
		return a + " " + x.Op.String() + " " + b, nil
	case *ast.UnaryExpr:
		a, err := specToGo(x.X, pkgImports, used)
		return x.Op.String() + a, err
	case *ast.BasicLit:
		return x.Value, nil
	case *ast.Ident:
		if strings.HasPrefix(x.Name, "__") || x.Name == "_IMP_" || x.Name == "_IFF_" {
			return "", fmt.Errorf("ghost name %s", x.Name)
		}
		return x.Name, nil
	case *ast.SelectorExpr:
		if id, ok := x.X.(*ast.Ident); ok {
			if path, isPkg := pkgImports[id.Name]; isPkg {
				used[id.Name] = path
				return id.Name + "." + x.Sel.Name, nil
			}
		}
		a, err := specToGo(x.X, pkgImports, used)
		return a + "." + x.Sel.Name, err
	case *ast.IndexExpr:
		a, err := specToGo(x.X, pkgImports, used)
		if err != nil {
			return "", err
		}
		b, err := specToGo(x.Index, pkgImports, used)
		return a + "[" + b + "]", err
	case *ast.SliceExpr:
		a, err := specToGo(x.X, pkgImports, used)
		if err != nil {
			return "", err
		}
		lo, hi := "", ""
		if x.Low != nil {
			if lo, err = specToGo(x.Low, pkgImports, used); err != nil {
				return "", err
			}
		}
		if x.High != nil {
			if hi, err = specToGo(x.High, pkgImports, used); err != nil {
				return "", err
			}
		}
		return a + "[" + lo + ":" + hi + "]", nil
	case *ast.CallExpr:
		fn := exprStr(x.Fun)
		switch fn {
		case "forall", "exists", "forallk", "existsk", "all", "any", "old", "res", "ncalls", "lastarg", "has", "atentry", "inner", "count", "sum":
			return "", fmt.Errorf("clause uses %s(...), which has no direct Go reading", fn)
		}
		var as []string
		for _, a := range x.Args {
			s, err := specToGo(a, pkgImports, used)
			if err != nil {
				return "", err
			}
			as = append(as, s)
		}
		if fn == "ite" && len(as) == 3 {
			return fmt.Sprintf("vrIte(%s, %s, %s)", as[0], as[1], as[2]), nil
		}
		f, err := specToGo(x.Fun, pkgImports, used)
		if err != nil {
			return "", err
		}
		return f + "(" + strings.Join(as, ", ") + ")", nil
	case *ast.CompositeLit, *ast.StarExpr, *ast.ArrayType:
		return exprStr(x), nil
	}
	return "", fmt.Errorf("unsupported expression %T", e)
}

// packageImports: import names visible in the files of the package (for package-qualified names in contracts).
func packageImports(E *Engine, pkgPath string) map[string]string {
	out := map[string]string{}
	p := E.pkgs[pkgPath]
	if p == nil {
		return out
	}
	for _, file := range p.Syntax {
		for _, im := range file.Imports {
			path, _ := strconv.Unquote(im.Path.Value)
			name := ""
			if im.Name != nil {
				name = im.Name.Name
			} else if ip := p.Imports[path]; ip != nil && ip.Types != nil {
				name = ip.Types.Name()
			} else {
				name = filepath.Base(path)
			}
			if name != "_" && name != "." {
				out[name] = path
			}
		}
	}
	return out
}

// parseGetValue parses "((t1 v1) (t2 v2) ...)" into the list of value s-expressions, in order.
func parseGetValue(s string) []string {
	s = strings.TrimSpace(s)
	if !strings.HasPrefix(s, "(") {
		return nil
	}
	// split top-level pairs
	var pairs []string
	depth, start := 0, -1
	for i := 0; i < len(s); i++ {
		switch s[i] {
		case '(':
			depth++
			if depth == 2 {
				start = i
			}
		case ')':
			if depth == 2 && start >= 0 {
				pairs = append(pairs, s[start:i+1])
				start = -1
			}
			depth--
			if depth == 0 {
				i = len(s)
			}
		}
	}
	var vals []string
	for _, p := range pairs {
		inner := strings.TrimSpace(p[1 : len(p)-1])
		// the term is the first s-expression, the value the rest
		d, j := 0, 0
		for j = 0; j < len(inner); j++ {
			c := inner[j]
			if c == '(' {
				d++
			} else if c == ')' {
				d--
				if d == 0 {
					j++
					break
				}
			} else if (c == ' ' || c == '\n' || c == '\t') && d == 0 {
				break
			}
		}
		vals = append(vals, strings.TrimSpace(inner[j:]))
	}
	return vals
}

// smtInt parses an integer / bit-vector model value.
func smtInt(v string, signed bool, bits int) (*big.Int, bool) {
	v = strings.TrimSpace(v)
	neg := false
	if strings.HasPrefix(v, "(-") {
		neg = true
		v = strings.TrimSpace(strings.TrimSuffix(strings.TrimPrefix(v, "(-"), ")"))
	}
	n := new(big.Int)
	switch {
	case strings.HasPrefix(v, "#x"):
		if _, ok := n.SetString(v[2:], 16); !ok {
			return nil, false
		}
		if signed && bits > 0 && n.Bit(bits-1) == 1 {
			n.Sub(n, new(big.Int).Lsh(big.NewInt(1), uint(bits)))
		}
	case strings.HasPrefix(v, "#b"):
		if _, ok := n.SetString(v[2:], 2); !ok {
			return nil, false
		}
		if signed && bits > 0 && n.Bit(bits-1) == 1 {
			n.Sub(n, new(big.Int).Lsh(big.NewInt(1), uint(bits)))
		}
	default:
		if _, ok := n.SetString(v, 10); !ok {
			return nil, false
		}
	}
	if neg {
		n.Neg(n)
	}
	return n, true
}

func getValues(query string, terms []string, scratch, tag string, bv bool) ([]string, string) {
	if len(terms) == 0 {
		return nil, ""
	}
	file := filepath.Join(scratch, tag+".getvalue.smt2")
	q := "(set-option :produce-models true)\n" + query + "\n(check-sat)\n(get-value (" + strings.Join(terms, " ") + "))\n"
	if err := os.WriteFile(file, []byte(q), 0o644); err != nil {
		return nil, err.Error()
	}
	for _, solver := range []string{"z3-new", "z3"} {
		ctx, cancel := context.WithTimeout(context.Background(), 40*time.Second)
		out, _ := exec.CommandContext(ctx, solver, "-T:30", file).CombinedOutput()
		cancel()
		s := strings.TrimSpace(string(out))
		if !strings.HasPrefix(s, "sat") {
			continue
		}
		vals := parseGetValue(strings.TrimSpace(strings.TrimPrefix(s, "sat")))
		if len(vals) == len(terms) {
			return vals, ""
		}
	}
	return nil, "no solver returned values for the entry state"
}

// tryReplay attempts to turn a solver model into a failing execution of the real code.
// Returns true iff a failing input was reproduced on the real code.
func tryReplay(E *Engine, o *Obligation, rep map[string]interface{}, root, scratch string) bool {
	ri := o.Replay
	if ri == nil {
		rep["replay_note"] = "no concretisation for this obligation kind (only ensures / safe obligations of functions over integers, booleans, byte arrays, integer slices and structs of those are replayed); model attached"
		return false
	}
	if ri.Why != "" {
		rep["replay_note"] = "not replayable: " + ri.Why + "; model attached"
		return false
	}
	tag := sanitize(o.Name)
	var terms []string
	for _, l := range ri.Leaves {
		terms = append(terms, l.Term)
	}
	for _, s := range ri.Slices {
		terms = append(terms, fmt.Sprintf("(s_len %s)", s.Term), fmt.Sprintf("(s_nil %s)", s.Term))
	}
	nSl := len(ri.Slices)
	for _, a := range ri.Allocs {
		if a.NilTerm != "" {
			terms = append(terms, a.NilTerm)
		} else {
			terms = append(terms, "false")
		}
	}
	vals, errs := getValues(o.Query, terms, scratch, tag, ri.BV)
	if errs != "" {
		rep["replay_note"] = "concretisation failed: " + errs
		return false
	}
	var assigns []string
	inputs := map[string]string{}
	var nilPaths []string
	under := func(path string) bool {
		for _, np := range nilPaths {
			if strings.HasPrefix(path, np+".") || path == np {
				return true
			}
		}
		return false
	}
	for i, a := range ri.Allocs {
		if under(a.GoPath) {
			continue
		}
		if vals[len(ri.Leaves)+2*nSl+i] == "true" {
			nilPaths = append(nilPaths, a.GoPath)
			inputs[a.GoPath] = "nil"
			continue
		}
		assigns = append(assigns, fmt.Sprintf("%s = new(%s)", a.GoPath, a.Type))
	}
	for _, m := range ri.Makes {
		if !under(m.GoPath) {
			assigns = append(assigns, fmt.Sprintf("%s = make(%s)", m.GoPath, m.Type))
		}
	}
	for i, l := range ri.Leaves {
		if under(l.GoPath) {
			continue
		}
		switch l.Kind {
		case "bool":
			assigns = append(assigns, fmt.Sprintf("%s = %s", l.GoPath, vals[i]))
			inputs[l.GoPath] = vals[i]
		default:
			n, ok := smtInt(vals[i], l.Signed, l.Bits)
			if !ok {
				rep["replay_note"] = fmt.Sprintf("model value of %s not understood: %s", l.GoPath, vals[i])
				return false
			}
			if n.Sign() != 0 {
				assigns = append(assigns, fmt.Sprintf("%s = %s", l.GoPath, n.String()))
			}
			inputs[l.GoPath] = n.String()
		}
	}
	// slices: second round for the elements
	base := len(ri.Leaves)
	var elemTerms []string
	type sl struct {
		n   int
		nil bool
	}
	var sls []sl
	for i, s := range ri.Slices {
		if under(s.GoPath) {
			sls = append(sls, sl{0, true})
			continue
		}
		n, ok := smtInt(vals[base+2*i], true, 64)
		if !ok || n.Sign() < 0 || n.Cmp(big.NewInt(1<<22)) > 0 {
			rep["replay_note"] = fmt.Sprintf("slice %s has length %s in the model (not materialised)", s.GoPath, vals[base+2*i])
			return false
		}
		ln := int(n.Int64())
		if ln > 256 {
			// a long slice in the model is almost always one the clause does not depend on: right length, zero elements
			sls = append(sls, sl{-ln, false})
			continue
		}
		sls = append(sls, sl{ln, vals[base+2*i+1] == "true"})
		for k := 0; k < ln; k++ {
			elemTerms = append(elemTerms, fmt.Sprintf("(select (s_arr %s) %d)", s.Term, k))
		}
	}
	evals, errs := getValues(o.Query, elemTerms, scratch, tag+".elems", ri.BV)
	if errs != "" {
		rep["replay_note"] = "concretisation failed: " + errs
		return false
	}
	pos := 0
	for i, s := range ri.Slices {
		if sls[i].nil && sls[i].n == 0 {
			inputs[s.GoPath] = "nil"
			continue
		}
		if sls[i].n < 0 {
			lit := fmt.Sprintf("make([]%s, %d)", s.ElemType, -sls[i].n)
			assigns = append(assigns, fmt.Sprintf("%s = %s", s.GoPath, lit))
			inputs[s.GoPath] = lit + " (elements not read from the model)"
			continue
		}
		var es []string
		for k := 0; k < sls[i].n; k++ {
			n, ok := smtInt(evals[pos], s.Signed, s.Bits)
			pos++
			if !ok {
				rep["replay_note"] = "slice element value not understood"
				return false
			}
			es = append(es, n.String())
		}
		lit := fmt.Sprintf("[]%s{%s}", s.ElemType, strings.Join(es, ", "))
		assigns = append(assigns, fmt.Sprintf("%s = %s", s.GoPath, lit))
		inputs[s.GoPath] = lit
	}
	rep["replay_inputs"] = inputs
	if len(ri.Unset) > 0 {
		rep["replay_inputs_left_zero"] = ri.Unset
	}
	// contract clauses in Go
	pkgPath := o.Pkg
	imps := packageImports(E, pkgPath)
	used := map[string]string{}
	var reqs []string
	for _, r := range ri.Requires {
		e, err := parseSpec(r)
		if err != nil {
			rep["replay_note"] = "requires clause not parsed"
			return false
		}
		g, err := specToGo(e, imps, used)
		if err != nil {
			rep["replay_note"] = "requires clause has no Go reading: " + err.Error()
			return false
		}
		reqs = append(reqs, g)
	}
	clause := ""
	if o.Kind == "ensures" {
		e, err := parseSpec(o.Text)
		if err != nil {
			rep["replay_note"] = "clause not parsed"
			return false
		}
		g, err := specToGo(e, imps, used)
		if err != nil {
			rep["replay_note"] = "clause has no Go reading: " + err.Error()
			return false
		}
		clause = g
	}
	var b strings.Builder
	fmt.Fprintf(&b, "package %s\n\n// Generated by govc: replay of the solver model refuting obligation %s on the real code.\n\nimport (\n\t\"fmt\"\n\t\"testing\"\n", ri.PkgName, o.Name)
	var inames []string
	all := map[string]string{}
	for n, p := range ri.Imports {
		all[n] = p
	}
	for n, p := range used {
		if n != "fmt" && n != "testing" {
			all[n] = p
		}
	}
	for n := range all {
		inames = append(inames, n)
	}
	sort.Strings(inames)
	for _, n := range inames {
		fmt.Fprintf(&b, "\t%s %q\n", n, all[n])
	}
	fmt.Fprintf(&b, ")\n\nfunc vrImp(a, b func() bool) bool { return !a() || b() }\nfunc vrIte[T any](c bool, a, b T) T {\n\tif c {\n\t\treturn a\n\t}\n\treturn b\n}\n\nvar _ = vrIte[int]\nvar _ = vrImp\n\n")
	fmt.Fprintf(&b, "func TestVerifReplayModel(t *testing.T) {\n")
	for _, v := range ri.Vars {
		fmt.Fprintf(&b, "\tvar %s %s\n\t_ = %s\n", v.Name, v.Type, v.Name)
	}
	for _, a := range assigns {
		fmt.Fprintf(&b, "\t%s\n", a)
	}
	for _, r := range reqs {
		fmt.Fprintf(&b, "\tif !(%s) {\n\t\tfmt.Println(\"VERIF-REPLAY-PRECONDITION-NOT-MET\")\n\t\treturn\n\t}\n", r)
	}
	fmt.Fprintf(&b, "\tdefer func() {\n\t\tif r := recover(); r != nil {\n\t\t\tfmt.Printf(\"VERIF-REPLAY-PANIC %%v\\n\", r)\n\t\t}\n\t}()\n")
	var rs []string
	for i := 0; i < ri.NRes; i++ {
		rs = append(rs, fmt.Sprintf("r%d", i))
	}
	if ri.NRes > 0 {
		fmt.Fprintf(&b, "\t%s := %s\n", strings.Join(rs, ", "), ri.Call)
		for i := range rs {
			fmt.Fprintf(&b, "\t_ = r%d\n", i)
			if ri.ResNames[i] != "" && ri.ResNames[i] != "_" {
				fmt.Fprintf(&b, "\t%s := r%d\n\t_ = %s\n", ri.ResNames[i], i, ri.ResNames[i])
			}
		}
		fmt.Fprintf(&b, "\tresult := r0\n\t_ = result\n")
	} else {
		fmt.Fprintf(&b, "\t%s\n", ri.Call)
	}
	if clause != "" {
		fmt.Fprintf(&b, "\tif !(%s) {\n\t\tfmt.Printf(\"VERIF-REPLAY-FAIL clause violated; results:", clause)
		for range rs {
			fmt.Fprintf(&b, " %%v")
		}
		fmt.Fprintf(&b, "\\n\"")
		for _, r := range rs {
			fmt.Fprintf(&b, ", %s", r)
		}
		fmt.Fprintf(&b, ")\n\t\tt.Fail()\n\t\treturn\n\t}\n")
	}
	fmt.Fprintf(&b, "\tfmt.Println(\"VERIF-REPLAY-HOLDS\")\n}\n")
	testFile := filepath.Join(scratch, tag+"_replay_test.go")
	if err := os.WriteFile(testFile, []byte(b.String()), 0o644); err != nil {
		rep["replay_note"] = err.Error()
		return false
	}
	ov := filepath.Join(scratch, tag+".overlay.json")
	target := filepath.Join(E.repo, ri.PkgDir, "zz_verif_replay_test.go")
	_ = os.WriteFile(ov, []byte(fmt.Sprintf("{\"Replace\": {%q: %q}}\n", target, testFile)), 0o644)
	ctx, cancel := context.WithTimeout(context.Background(), 5*time.Minute)
	defer cancel()
	cmd := exec.CommandContext(ctx, "go", "test", "-overlay", ov, "-vet=off", "-count=1", "-timeout", "60s", "-run", "^TestVerifReplayModel$", "./"+ri.PkgDir+"/")
	cmd.Dir = E.repo
	cmd.Env = append(os.Environ(), "GOFLAGS=-mod=mod", "GOPROXY=off", "GOSUMDB=off", "GOTOOLCHAIN=local")
	out, _ := cmd.CombinedOutput()
	text := string(out)
	if len(text) > 4000 {
		text = text[len(text)-4000:]
	}
	rep["replay_output"] = text
	// keep the generated test next to the replay record
	if dir, ok := rep["replay_dir"].(string); ok && dir != "" {
		dst := filepath.Join(dir, tag+"_replay_test.go")
		_ = os.WriteFile(dst, []byte(b.String()), 0o644)
		rep["replay_test"] = dst
		rep["replay_cmd"] = fmt.Sprintf("tools/replay.sh %s %s '^TestVerifReplayModel$'", ri.PkgDir, dst)
	}
	failed := strings.Contains(text, "VERIF-REPLAY-FAIL")
	if strings.HasPrefix(o.Kind, "safe.") || strings.HasPrefix(o.Kind, "unreachable.") {
		failed = strings.Contains(text, "VERIF-REPLAY-PANIC")
	}
	switch {
	case failed:
		rep["replay_note"] = "the solver's counterexample was replayed on the real code: the clause is violated for these inputs"
		return true
	case strings.Contains(text, "VERIF-REPLAY-PRECONDITION-NOT-MET"):
		rep["replay_note"] = "the model does not satisfy the requires clauses under Go semantics; not reproduced"
	case strings.Contains(text, "VERIF-REPLAY-HOLDS"):
		rep["replay_note"] = "the real code satisfies the clause on the model's inputs (the model depends on an abstraction of the verifier); not reproduced"
	case strings.Contains(text, "VERIF-REPLAY-PANIC"):
		rep["replay_note"] = "the real code panics on the model's inputs before the clause can be evaluated; not counted as a reproduction of this clause"
	default:
		rep["replay_note"] = "the generated replay test did not build or run; see replay_output"
	}
	return false
}
