package main

import (
	"context"
	"fmt"
	"os"
	"os/exec"
	"path/filepath"
	"strings"
	"sync"
	"time"
)

// Obligation is one named proof obligation: prefix[0:cut] /\ pc /\ not goal must be unsat.
type Obligation struct {
	Name     string
	Kind     string // ensures, loop.init, ...
	Fn       string
	Pkg      string
	Text     string // contract text
	Src      string // file:line of contract clause
	Query    string // full SMT-LIB text (without set-logic/check-sat decoration)
	ExpectSat bool  // canary / pre-cover: must be sat
	Props    []string

	Result   string // unsat, sat, unknown, timeout, error
	Backend  string
	TimeS    float64
	Output   string
	Model    string
	Gen      string // non-empty: could not be generated (reason)
	Confirmed []string // thorough tier: other solvers that independently returned the same verdict
	Disagree  string   // thorough tier: a solver that returned the opposite definitive verdict
	Decided  string // non-empty: verdict fixed at generation time (unsat = holds, sat = refuted with Output as reason)
	Known    bool   // listed as a known finding: expected to fail, short timeout, no retry
	Replay   *ReplayInfo // how to rebuild the function's inputs from a model (nil: not in the replayable class)
	Guard    *Obligation // call-cover: the state just before the call; a refuted cover only counts if this one is satisfiable
}

const prelude = `
(define-fun go_div ((a Int) (b Int)) Int (ite (>= a 0) (ite (> b 0) (div a b) (- (div a (- b)))) (ite (> b 0) (- (div (- a) b)) (div (- a) (- b)))))
(define-fun go_mod ((a Int) (b Int)) Int (- a (* b (go_div a b))))
(declare-fun bit_and (Int Int) Int)
(declare-fun bit_or (Int Int) Int)
(declare-fun bit_xor (Int Int) Int)
(declare-fun bit_shl (Int Int) Int)
(declare-fun bit_shr (Int Int) Int)
(declare-fun bit_andnot (Int Int) Int)
`

type solverSpec struct {
	name string
	args func(file string, timeoutS int) []string
	pre  func(q string) string
}

var solvers = []solverSpec{
	{"z3-new", func(f string, t int) []string { return []string{"z3-new", fmt.Sprintf("-T:%d", t), f} }, nil},
	{"z3", func(f string, t int) []string { return []string{"z3", fmt.Sprintf("-T:%d", t), f} }, nil},
	{"cvc5", func(f string, t int) []string {
		return []string{"cvc5", "--lang=smt2", fmt.Sprintf("--tlimit=%d", t*1000), "--produce-models", f}
	}, nil},
}

// seeded variants, used only when the first round did not decide an obligation: solver heuristics are sensitive to
// incidental details of the query text (declaration order, symbol numbering), so an obligation that is provable may
// time out for one numbering and be proved at once for another; different random seeds explore that variation.
var seededSolvers = []solverSpec{
	{"z3-new#1", func(f string, t int) []string {
		return []string{"z3-new", fmt.Sprintf("-T:%d", t), "smt.random_seed=1", "sat.random_seed=1", f}
	}, nil},
	{"z3-new#2", func(f string, t int) []string {
		return []string{"z3-new", fmt.Sprintf("-T:%d", t), "smt.random_seed=7", "sat.random_seed=7", "smt.arith.random_initial_value=true", f}
	}, nil},
	{"z3-new#3", func(f string, t int) []string {
		return []string{"z3-new", fmt.Sprintf("-T:%d", t), "smt.random_seed=42", "sat.random_seed=42", "smt.relevancy=0", f}
	}, nil},
	{"z3#1", func(f string, t int) []string {
		return []string{"z3", fmt.Sprintf("-T:%d", t), "smt.random_seed=3", "sat.random_seed=3", f}
	}, nil},
	{"cvc5#1", func(f string, t int) []string {
		return []string{"cvc5", "--lang=smt2", fmt.Sprintf("--tlimit=%d", t*1000), "--produce-models", "--seed=5", f}
	}, nil},
}

// runSolver runs one solver on a query file, returns first-line verdict, output.
func runSolver(ctx context.Context, sp solverSpec, file string, timeoutS int) (string, string, float64) {
	t0 := time.Now()
	args := sp.args(file, timeoutS)
	cctx, cancel := context.WithTimeout(ctx, time.Duration(timeoutS+2)*time.Second)
	defer cancel()
	cmd := exec.CommandContext(cctx, args[0], args[1:]...)
	out, _ := cmd.CombinedOutput()
	el := time.Since(t0).Seconds()
	s := strings.TrimSpace(string(out))
	first := s
	if i := strings.IndexByte(s, '\n'); i >= 0 {
		first = strings.TrimSpace(s[:i])
	}
	switch first {
	case "unsat", "sat", "unknown":
		return first, s, el
	}
	if strings.Contains(first, "timeout") || cctx.Err() != nil {
		return "timeout", s, el
	}
	if ctx.Err() != nil {
		return "cancelled", s, el
	}
	return "error", s, el
}

// Discharge races the solvers on one obligation.
func Discharge(o *Obligation, scratch string, timeoutS int, only string) {
	if o.Gen != "" {
		o.Result = "cannot-generate"
		o.Output = o.Gen
		return
	}
	if o.Decided != "" {
		// decided at generation time by a syntactic / type-directed rule (no solver query)
		o.Result, o.Backend = o.Decided, "ownership-rule"
		if o.Kind == "recovers" {
			o.Backend = "recover-rule"
		}
		if o.Kind == "nopanic.callee" {
			o.Backend = "no-panic-rule"
		}
		return
	}
	base := filepath.Join(scratch, sanitize(o.Name))
	if o.ExpectSat && timeoutS > 3 {
		timeoutS = 3
	}
	if o.Known && timeoutS > 4 {
		timeoutS = 4
	}
	type res struct {
		v, out, name string
		t            float64
	}
	ctx, cancel := context.WithCancel(context.Background())
	defer cancel()
	ch := make(chan res, len(solvers)+len(seededSolvers))
	n := 0
	list := solvers
	if only == "+seeds" {
		list = append(append([]solverSpec{}, solvers...), seededSolvers...)
		only = ""
	}
	for _, sp := range list {
		if only != "" && sp.name != only {
			continue
		}
		q := o.Query
		hdr := "(set-option :produce-models true)\n"
		if strings.HasPrefix(sp.name, "cvc5") {
			if strings.Contains(q, "(lambda ") {
				continue
			}
			hdr += "(set-logic ALL)\n"
		}
		file := base + "." + sp.name + ".smt2"
		tail := "(check-sat)\n"
		if err := os.WriteFile(file, []byte(hdr+q+tail), 0o644); err != nil {
			o.Result, o.Output = "error", err.Error()
			return
		}
		n++
		go func(sp solverSpec, file string) {
			v, out, t := runSolver(ctx, sp, file, timeoutS)
			ch <- res{v, out, sp.name, t}
		}(sp, file)
	}
	want := "unsat"
	if o.ExpectSat {
		want = "sat"
	}
	var outs []string
	best := res{v: "unknown"}
	for i := 0; i < n; i++ {
		r := <-ch
		outs = append(outs, fmt.Sprintf("[%s %.2fs] %s", r.name, r.t, firstLines(r.out, 3)))
		if r.v == "unsat" || r.v == "sat" {
			// definitive
			if best.v != "unsat" && best.v != "sat" {
				best = r
			}
			if r.v == want || true {
				cancel()
				best = r
				break
			}
		} else if best.v == "unknown" && r.v == "timeout" {
			best = r
		}
	}
	o.Result, o.Backend, o.TimeS = best.v, best.name, best.t
	o.Output = strings.Join(outs, "\n")
	if o.ExpectSat {
		// vacuity guards: anything but a refutation counts (sat with quantifiers is rarely decided)
		if o.Result != "unsat" {
			if o.Result != "sat" {
				o.Output = "not refuted (" + o.Result + ")\n" + o.Output
			}
			o.Result = "sat"
		}
	}
	if best.v == "sat" && !o.ExpectSat {
		// fetch a model from the solver that said sat
		o.Model = getModel(o, base, best.name, timeoutS)
	}
}

func getModel(o *Obligation, base, solver string, timeoutS int) string {
	if i := strings.Index(solver, "#"); i >= 0 {
		solver = solver[:i]
	}
	for _, sp := range solvers {
		if sp.name != solver {
			continue
		}
		hdr := "(set-option :produce-models true)\n"
		if sp.name == "cvc5" {
			hdr += "(set-logic ALL)\n"
		}
		file := base + "." + sp.name + ".model.smt2"
		_ = os.WriteFile(file, []byte(hdr+o.Query+"(check-sat)\n(get-model)\n"), 0o644)
		_, out, _ := runSolver(context.Background(), sp, file, timeoutS)
		if len(out) > 200000 {
			out = out[:200000]
		}
		return out
	}
	return ""
}

func firstLines(s string, n int) string {
	ls := strings.Split(s, "\n")
	if len(ls) > n {
		ls = ls[:n]
	}
	return strings.Join(ls, " | ")
}

// DischargeAll runs obligations in parallel.
func DischargeAll(obls []*Obligation, scratch string, timeoutS int, par int) {
	var wg sync.WaitGroup
	sem := make(chan struct{}, par)
	for _, o := range obls {
		wg.Add(1)
		sem <- struct{}{}
		go func(o *Obligation) {
			defer wg.Done()
			defer func() { <-sem }()
			Discharge(o, scratch, timeoutS, "")
			if o.Guard != nil && o.Result == "unsat" {
				// the state after assuming the callee's postconditions is contradictory: a violation only if the state
				// just before the call was reachable (otherwise the call site itself is dead code in the model)
				Discharge(o.Guard, scratch, timeoutS, "")
				if o.Guard.Result != "sat" {
					o.Result = "sat"
					o.Output += " | call site not reachable in the model (pre-call state: " + o.Guard.Result + ")"
				} else {
					o.Output += " | the state before the call is satisfiable, the state after assuming the callee's contract is not: the contract contradicts what the caller knows (missing assigns / wrong postcondition)"
				}
			}
			want := "unsat"
			if o.ExpectSat {
				want = "sat"
			}
			if !o.ExpectSat && !o.Known && o.Result != want && o.Result != "cannot-generate" && o.Result != "sat" && o.Result != "unsat" {
				// retry once with 6x timeout: load must not become an alarm
				Discharge(o, scratch, timeoutS*6, "")
			}
		}(o)
	}
	wg.Wait()
}

// ConfirmAll (thorough tier): every obligation discharged as unsat is re-run on the solvers that did not win the
// race; an independent unsat is recorded, a definitive sat is a solver disagreement (reported, never a pass).
func ConfirmAll(obls []*Obligation, scratch string, timeoutS int, par int) {
	var wg sync.WaitGroup
	sem := make(chan struct{}, par)
	for _, o := range obls {
		if o.ExpectSat || o.Decided != "" || o.Result != "unsat" || o.Gen != "" {
			continue
		}
		wg.Add(1)
		sem <- struct{}{}
		go func(o *Obligation) {
			defer wg.Done()
			defer func() { <-sem }()
			base := filepath.Join(scratch, sanitize(o.Name))
			for _, sp := range solvers {
				if sp.name == o.Backend {
					continue
				}
				if sp.name == "cvc5" && strings.Contains(o.Query, "(lambda ") {
					continue
				}
				file := base + "." + sp.name + ".smt2"
				if _, err := os.Stat(file); err != nil {
					continue
				}
				v, _, _ := runSolver(context.Background(), sp, file, timeoutS)
				switch v {
				case "unsat":
					o.Confirmed = append(o.Confirmed, sp.name)
				case "sat":
					o.Disagree = sp.name
				}
			}
		}(o)
	}
	wg.Wait()
}
