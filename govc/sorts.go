package main

import (
	"fmt"
	"go/types"
	"sort"
	"strings"
)

// Val is a symbolic Go value: an SMT term with the Go type it models.
type Val struct {
	T       string     // SMT term
	Typ     types.Type // Go type (may be nil for ghost values; then Sort is set)
	S       string     // explicit sort (ghost values)
	Clo     *Closure   // non-nil for locally bound function literals / inlined closure results
	Unboxed *Val       // set on a value that was just converted to an interface: the concrete value (contracts name it uK)
}

// Closure is a function literal bound at verification time (inlined at calls).
type Closure struct {
	Lit  interface{} // *ast.FuncLit
	Env  *Env
	Name string
	Fn   *FuncCtx
}

// Sorts maps Go types to SMT sorts and collects declarations.
type Sorts struct {
	decls    []string        // ordered declarations
	declared map[string]bool // sort / symbol name -> declared
	structs  map[string]*types.Struct
	module   string // module path prefix whose structs are modelled as datatypes
	bv       bool   // bit-vector mode for integers
	strLits  map[string]string
	tnames   map[string]string // sort name -> type string (collision check)
}

func NewSorts(module string) *Sorts {
	s := &Sorts{declared: map[string]bool{}, structs: map[string]*types.Struct{}, module: module, strLits: map[string]string{}, tnames: map[string]string{}}
	s.decls = append(s.decls,
		"(declare-datatypes ((Slice 1)) ((par (T) ((mk_slice (s_arr (Array Int T)) (s_len Int) (s_nil Bool))))))",
		"(declare-datatypes ((Map 2)) ((par (K V) ((mk_map (m_dom (Array K Bool)) (m_val (Array K V)) (m_card Int))))))",
		"(declare-datatypes ((Opt 1)) ((par (T) ((none) (some (the T))))))",
		"(declare-sort Str 0)",
		"(declare-fun str_len (Str) Int)",
		"(declare-const str_empty Str)",
		"(assert (= (str_len str_empty) 0))",
		"(assert (forall ((s Str)) (! (>= (str_len s) 0) :pattern ((str_len s)))))",
		"(declare-sort Err 0)",
		"(declare-const nil_Err Err)",
		"(declare-sort Func 0)",
		"(declare-const nil_Func Func)",
		"(declare-sort Chan 0)",
		"(declare-const nil_Chan Chan)",
		"(declare-sort Opaque 0)",
	)
	return s
}

func sanitize(s string) string {
	var b strings.Builder
	for _, r := range s {
		switch {
		case r >= 'a' && r <= 'z', r >= 'A' && r <= 'Z', r >= '0' && r <= '9', r == '_', r == '.':
			b.WriteRune(r)
		case r == '/':
			b.WriteRune('.')
		case r == '*':
			b.WriteString("P")
		case r == '[' || r == ']' || r == ',' || r == ' ' || r == '(' || r == ')':
			b.WriteRune('_')
		default:
			b.WriteRune('_')
		}
	}
	return b.String()
}

func (s *Sorts) declare(name, decl string) {
	if s.declared[name] {
		return
	}
	s.declared[name] = true
	s.decls = append(s.decls, decl)
}

// typeName gives a stable short name for a named type (package name + type name + type args).
func typeName(t types.Type) string {
	switch t := t.(type) {
	case *types.Named:
		n := t.Obj().Name()
		if p := t.Obj().Pkg(); p != nil {
			n = p.Name() + "." + n
		}
		if ta := t.TypeArgs(); ta != nil && ta.Len() > 0 {
			var as []string
			for i := 0; i < ta.Len(); i++ {
				as = append(as, typeName(ta.At(i)))
			}
			n += "_" + strings.Join(as, "_")
		}
		return sanitize(n)
	case *types.TypeParam:
		return "TP_" + t.Obj().Name()
	case *types.Alias:
		return typeName(types.Unalias(t))
	case *types.Pointer:
		return "P" + typeName(t.Elem())
	case *types.Basic:
		return t.Name()
	}
	return sanitize(t.String())
}

// byteArray reports fixed-size arrays of bytes.
func byteArray(a *types.Array) (int64, bool) {
	b, ok := a.Elem().Underlying().(*types.Basic)
	if ok && (b.Kind() == types.Uint8) {
		return a.Len(), true
	}
	return 0, false
}

func isInteger(t types.Type) bool {
	b, ok := t.Underlying().(*types.Basic)
	return ok && b.Info()&types.IsInteger != 0
}
func isFloat(t types.Type) bool {
	b, ok := t.Underlying().(*types.Basic)
	return ok && b.Info()&types.IsFloat != 0
}
func isBool(t types.Type) bool {
	b, ok := t.Underlying().(*types.Basic)
	return ok && b.Info()&types.IsBoolean != 0
}
func isString(t types.Type) bool {
	b, ok := t.Underlying().(*types.Basic)
	return ok && b.Info()&types.IsString != 0
}
func isUnsigned(t types.Type) bool {
	b, ok := t.Underlying().(*types.Basic)
	return ok && b.Info()&types.IsUnsigned != 0
}
func intWidth(t types.Type) int {
	b, ok := t.Underlying().(*types.Basic)
	if !ok {
		return 64
	}
	switch b.Kind() {
	case types.Int8, types.Uint8:
		return 8
	case types.Int16, types.Uint16:
		return 16
	case types.Int32, types.Uint32:
		return 32
	}
	return 64
}

// inModule reports whether a named type is defined inside the verified module.
func (s *Sorts) inModule(n *types.Named) bool {
	p := n.Obj().Pkg()
	return p != nil && strings.HasPrefix(p.Path(), s.module)
}

// structRef: pointer-to-struct types are modelled as references with per-field heaps.
func ptrStruct(t types.Type) (*types.Struct, types.Type, bool) {
	p, ok := types.Unalias(t).Underlying().(*types.Pointer)
	if !ok {
		return nil, nil, false
	}
	st, ok := p.Elem().Underlying().(*types.Struct)
	if !ok {
		return nil, nil, false
	}
	return st, p.Elem(), true
}

// SortOf returns the SMT sort for a Go type, declaring what is needed.
func (s *Sorts) SortOf(t types.Type) string {
	if t == nil {
		return "Opaque"
	}
	t = types.Unalias(t)
	switch u := t.(type) {
	case *types.TypeParam:
		n := "TP_" + u.Obj().Name()
		s.declare(n, fmt.Sprintf("(declare-sort %s 0)", n))
		s.declare("zero_"+n, fmt.Sprintf("(declare-const zero_%s %s)", n, n))
		return n
	case *types.Named:
		if u.Obj().Pkg() == nil && u.Obj().Name() == "error" {
			return "Err"
		}
		switch uu := u.Underlying().(type) {
		case *types.Struct:
			n := "S_" + typeName(u)
			if s.declared[n] {
				return n
			}
			if !s.inModule(u) {
				s.declare(n, fmt.Sprintf("(declare-sort %s 0)", n))
				s.declare("zero_"+n, fmt.Sprintf("(declare-const zero_%s %s)", n, n))
				return n
			}
			// datatype; mark declared first to cut recursion (recursive value types are impossible in Go except via ref types)
			s.declared[n] = true
			s.structs[n] = uu
			var fs []string
			for i := 0; i < uu.NumFields(); i++ {
				f := uu.Field(i)
				fs = append(fs, fmt.Sprintf("(%s %s)", s.fieldAcc(n, f.Name()), s.SortOf(f.Type())))
			}
			if len(fs) == 0 {
				fs = append(fs, fmt.Sprintf("(%s Int)", s.fieldAcc(n, "_empty")))
			}
			s.decls = append(s.decls, fmt.Sprintf("(declare-datatypes ((%s 0)) (((mk_%s %s))))", n, n, strings.Join(fs, " ")))
			return n
		case *types.Interface:
			n := "I_" + typeName(u)
			s.declare(n, fmt.Sprintf("(declare-sort %s 0)", n))
			s.declare("nil_"+n, fmt.Sprintf("(declare-const nil_%s %s)", n, n))
			return n
		default:
			_ = uu
			return s.SortOf(u.Underlying())
		}
	case *types.Basic:
		switch {
		case u.Info()&types.IsBoolean != 0:
			return "Bool"
		case u.Info()&types.IsInteger != 0:
			if s.bv {
				return fmt.Sprintf("(_ BitVec %d)", intWidth(u))
			}
			return "Int"
		case u.Info()&types.IsFloat != 0:
			if s.bv {
				return "Float64"
			}
			return "Real"
		case u.Info()&types.IsString != 0:
			return "Str"
		case u.Kind() == types.UntypedNil:
			return "Opaque"
		case u.Kind() == types.UnsafePointer:
			return "Opaque"
		}
		return "Opaque"
	case *types.Slice:
		srt := fmt.Sprintf("(Slice %s)", s.SortOf(u.Elem()))
		// force the instantiation of the parametric datatype at this element sort
		s.declare("inst:"+srt, fmt.Sprintf("(declare-const sortinst!%d %s)", len(s.declared), srt))
		return srt
	case *types.Array:
		if n, ok := byteArray(u); ok {
			// fixed byte arrays (hashes, keys, signatures) are opaque values with an element accessor:
			// they are used as map keys and compared for equality, which array sorts handle badly
			srt := fmt.Sprintf("ArrB%d", n)
			if !s.declared[srt] {
				s.declare(srt, fmt.Sprintf("(declare-sort %s 0)", srt))
				// the element accessor is a macro over one array-valued function of the opaque value, so that a view of
				// the value as a slice is one array equality (one quantifier instance per slice term) and not one
				// instance per element term
				s.declare("arr_"+srt, fmt.Sprintf("(declare-fun arr_%s (%s) (Array Int Int))", srt, srt))
				s.declare("at_"+srt, fmt.Sprintf("(define-fun at_%s ((a!d %s) (i!d Int)) Int (select (arr_%s a!d) i!d))", srt, srt, srt))
				s.declare("zero_"+srt, fmt.Sprintf("(declare-const zero_%s %s)", srt, srt))
				s.decls = append(s.decls, fmt.Sprintf("(assert (forall ((i!c Int)) (! (= (at_%s zero_%s i!c) 0) :pattern ((at_%s zero_%s i!c)))))", srt, srt, srt, srt))
				s.decls = append(s.decls, fmt.Sprintf("(assert (forall ((a!c %s) (b!c %s)) (=> (forall ((i!c Int)) (=> (and (<= 0 i!c) (< i!c %d)) (= (at_%s a!c i!c) (at_%s b!c i!c)))) (= a!c b!c))))", srt, srt, n, srt, srt))
				// the byte range of elements is assumed at the read sites in code (indexVal), like for byte slices:
				// a global range axiom costs two arithmetic facts per element term and made obligations with many
				// element terms slow (cluster.Lock.verifyBuilderRegistrations: 13 s against a 15 s budget)
				s.declare("slice_"+srt, fmt.Sprintf("(declare-fun slice_%s (%s) (Slice Int))", srt, srt))
				s.decls = append(s.decls, fmt.Sprintf("(assert (forall ((a!c %s)) (! (and (= (s_len (slice_%s a!c)) %d) (not (s_nil (slice_%s a!c)))) :pattern ((slice_%s a!c)))))", srt, srt, n, srt, srt))
				s.decls = append(s.decls, fmt.Sprintf("(assert (forall ((a!c %s)) (! (= (s_arr (slice_%s a!c)) (arr_%s a!c)) :pattern ((slice_%s a!c)))))", srt, srt, srt, srt))
				s.decls = append(s.decls, fmt.Sprintf("(assert (forall ((a!c %s) (b!c %s)) (! (=> (= (slice_%s a!c) (slice_%s b!c)) (= a!c b!c)) :pattern ((slice_%s a!c) (slice_%s b!c)))))", srt, srt, srt, srt, srt, srt))
			}
			return srt
		}
		return fmt.Sprintf("(Array Int %s)", s.SortOf(u.Elem()))
	case *types.Map:
		srt := fmt.Sprintf("(Map %s %s)", s.SortOf(u.Key()), s.SortOf(u.Elem()))
		s.declare("inst:"+srt, fmt.Sprintf("(declare-const sortinst!%d %s)", len(s.declared), srt))
		return srt
	case *types.Pointer:
		if _, el, ok := ptrStruct(u); ok {
			n := "R_" + typeName(el)
			s.declare(n, fmt.Sprintf("(declare-sort %s 0)", n))
			s.declare("nil_"+n, fmt.Sprintf("(declare-const nil_%s %s)", n, n))
			return n
		}
		return fmt.Sprintf("(Opt %s)", s.SortOf(u.Elem()))
	case *types.Interface:
		if u.NumMethods() == 0 {
			s.declare("I_any", "(declare-sort I_any 0)")
			s.declare("nil_I_any", "(declare-const nil_I_any I_any)")
			return "I_any"
		}
		n := "I_" + sanitize(u.String())
		s.declare(n, fmt.Sprintf("(declare-sort %s 0)", n))
		s.declare("nil_"+n, fmt.Sprintf("(declare-const nil_%s %s)", n, n))
		return n
	case *types.Signature:
		return "Func"
	case *types.Chan:
		return "Chan"
	case *types.Struct:
		// anonymous struct: treat as opaque per-shape sort
		n := "S_anon_" + sanitize(u.String())
		if len(n) > 60 {
			n = n[:60]
		}
		s.declare(n, fmt.Sprintf("(declare-sort %s 0)", n))
		s.declare("zero_"+n, fmt.Sprintf("(declare-const zero_%s %s)", n, n))
		return n
	case *types.Tuple:
		return "Opaque"
	}
	return "Opaque"
}

func (s *Sorts) fieldAcc(sortName, field string) string {
	return "f_" + sortName + "_" + field
}

// isDatatypeStruct reports whether t (a struct value type) is modelled as a datatype.
func (s *Sorts) isDatatypeStruct(t types.Type) (string, *types.Struct, bool) {
	n, ok := types.Unalias(t).(*types.Named)
	if !ok {
		return "", nil, false
	}
	st, ok := n.Underlying().(*types.Struct)
	if !ok || !s.inModule(n) {
		return "", nil, false
	}
	return s.SortOf(t), st, true
}

// constArr returns an array whose every element is v (cvc5 only accepts literal values in 'as const').
func (s *Sorts) constArr(idx, elem, v string) string {
	lit := v == "false" || v == "true" || v == "0" || v == "0.0" || strings.HasPrefix(v, "(_ bv")
	if lit {
		return fmt.Sprintf("((as const (Array %s %s)) %s)", idx, elem, v)
	}
	key := "carr:" + idx + ":" + elem + ":" + v
	if n, ok := s.strLits[key]; ok {
		return n
	}
	n := fmt.Sprintf("carr_%d", len(s.strLits))
	s.strLits[key] = n
	s.decls = append(s.decls, fmt.Sprintf("(declare-const %s (Array %s %s))", n, idx, elem))
	s.decls = append(s.decls, fmt.Sprintf("(assert (forall ((i!c %s)) (! (= (select %s i!c) %s) :pattern ((select %s i!c)))))", idx, n, v, n))
	return n
}

// Zero returns the zero-value term of a Go type.
func (s *Sorts) Zero(t types.Type) string {
	srt := s.SortOf(t)
	t = types.Unalias(t)
	switch u := t.(type) {
	case *types.TypeParam:
		return "zero_" + srt
	case *types.Named:
		if srt == "Err" {
			return "nil_Err"
		}
		switch uu := u.Underlying().(type) {
		case *types.Struct:
			if !s.inModule(u) {
				return "zero_" + srt
			}
			var fs []string
			for i := 0; i < uu.NumFields(); i++ {
				fs = append(fs, s.Zero(uu.Field(i).Type()))
			}
			if len(fs) == 0 {
				fs = []string{"0"}
			}
			return fmt.Sprintf("(mk_%s %s)", srt, strings.Join(fs, " "))
		case *types.Interface:
			return "nil_" + srt
		}
		return s.Zero(u.Underlying())
	case *types.Basic:
		switch {
		case u.Info()&types.IsBoolean != 0:
			return "false"
		case u.Info()&types.IsInteger != 0:
			if s.bv {
				return fmt.Sprintf("(_ bv0 %d)", intWidth(u))
			}
			return "0"
		case u.Info()&types.IsFloat != 0:
			if s.bv {
				return "(_ +zero 11 53)"
			}
			return "0.0"
		case u.Info()&types.IsString != 0:
			return "str_empty"
		}
		s.declare("zero_Opaque", "(declare-const zero_Opaque Opaque)")
		return "zero_Opaque"
	case *types.Slice:
		el := s.SortOf(u.Elem())
		return fmt.Sprintf("(mk_slice %s 0 true)", s.constArr("Int", el, s.Zero(u.Elem())))
	case *types.Array:
		if _, ok := byteArray(u); ok {
			return "zero_" + srt
		}
		return s.constArr("Int", s.SortOf(u.Elem()), s.Zero(u.Elem()))
	case *types.Map:
		k, v := s.SortOf(u.Key()), s.SortOf(u.Elem())
		return fmt.Sprintf("(mk_map ((as const (Array %s Bool)) false) %s 0)", k, s.constArr(k, v, s.Zero(u.Elem())))
	case *types.Pointer:
		if _, _, ok := ptrStruct(u); ok {
			return "nil_" + srt
		}
		return fmt.Sprintf("(as none %s)", srt)
	case *types.Interface:
		return "nil_" + srt
	case *types.Signature:
		return "nil_Func"
	case *types.Chan:
		return "nil_Chan"
	case *types.Struct:
		return "zero_" + srt
	}
	s.declare("zero_Opaque", "(declare-const zero_Opaque Opaque)")
	return "zero_Opaque"
}

// StrLit returns a constant for a string literal (distinct constants for distinct literals).
func (s *Sorts) StrLit(lit string) string {
	if lit == "" {
		return "str_empty"
	}
	if c, ok := s.strLits["s:"+lit]; ok {
		return c
	}
	c := fmt.Sprintf("strlit_%d", len(s.strLits))
	s.strLits["s:"+lit] = c
	s.decls = append(s.decls, fmt.Sprintf("(declare-const %s Str) ; %q", c, lit))
	s.decls = append(s.decls, fmt.Sprintf("(assert (= (str_len %s) %d))", c, len(lit)))
	return c
}

func (s *Sorts) strLitDistinct() string {
	var cs []string
	for k, c := range s.strLits {
		if strings.HasPrefix(k, "carr:") {
			continue
		}
		cs = append(cs, c)
	}
	if len(cs) == 0 {
		return ""
	}
	sort.Strings(cs)
	cs = append(cs, "str_empty")
	return fmt.Sprintf("(assert (distinct %s))", strings.Join(cs, " "))
}

// Decls returns all declarations.
func (s *Sorts) Decls() []string {
	out := append([]string{}, s.decls...)
	if d := s.strLitDistinct(); d != "" {
		out = append(out, d)
	}
	return out
}
