package main

// Name repair: contracts are keyed by function, loop ordinal and callee text, but their clauses have to name the
// receiver, parameters, results and locals of the function they describe. A harmless edit that renames one of these
// would otherwise leave the clauses unresolvable and every obligation of the function ungenerated (an alarm on code
// where the property holds). ledger/names.json records, for every function under contract on the pinned tree, the
// receiver / parameter / result names in order and the locals with their types in source order. When a recorded name no
// longer exists in the function, the clauses are re-read with the name the same slot has now (receiver, parameters and
// results positionally; a local by its type among the locals that are new). The obligations are then generated and
// discharged as usual: the repair only chooses how to read the clause text, it proves nothing, so it cannot hide a
// violation; every repair applied is printed and listed in the evidence. On a tree where every recorded name still
// exists nothing is repaired and the queries are byte for byte what they were.

import (
	"regexp"
	"encoding/json"
	"fmt"
	"go/ast"
	"go/token"
	"go/types"
	"os"
	"path/filepath"
	"sort"
	"strings"

	"golang.org/x/tools/go/packages"
)

type funcNames struct {
	Recv    string      `json:"recv,omitempty"`
	Params  []string    `json:"params,omitempty"`
	Results []string    `json:"results,omitempty"`
	Outer   []string    `json:"outer,omitempty"` // for a function literal's contract: the enclosing function's parameters (captured)
	Sites   map[string][]string `json:"sites,omitempty"` // callee text with site-keyed clauses -> assignment target of each call, in source order
	Depth   []int             `json:"depth,omitempty"` // per local: number of loops whose body encloses its declaration
	Loops   []string          `json:"loops,omitempty"` // per loop ordinal (outside function literals): what the loop ranges over / its condition
	Intro   map[string]string `json:"-"` // current run: pure selector expression -> local introduced for it (x := a.b.c)
	LoopSeq map[string]string `json:"-"` // current run: loop ordinal -> the slice the loop walks over (ranged expression, or x of `i < len(x)`)
	LocalPos []int      `json:"-"` // declaration position of each local (current run only)
	Callees [][2]string `json:"callees,omitempty"` // (callee text, type) of calls through an indexed function value, e.g. subs[i](...)
	Locals  [][4]string `json:"locals,omitempty"` // (name, type, initial boolean literal if declared with one, role: "val:<loop>:<ranged expr>" / "idx:<loop>" for the value / index variable of a loop outside function literals) in source order
}

func typeStr(t types.Type) string {
	return types.TypeString(t, func(p *types.Package) string { return p.Name() })
}

// namesOfDecl collects the names of one declared function (locals of nested literals included).
func namesOfDecl(p *packages.Package, d *ast.FuncDecl) funcNames {
	var fn funcNames
	field := func(fl *ast.FieldList) []string {
		var out []string
		if fl == nil {
			return out
		}
		for _, f := range fl.List {
			if len(f.Names) == 0 {
				out = append(out, "")
			}
			for _, n := range f.Names {
				out = append(out, n.Name)
			}
		}
		return out
	}
	if d.Recv != nil {
		if r := field(d.Recv); len(r) == 1 {
			fn.Recv = r[0]
		}
	}
	fn.Params = field(d.Type.Params)
	fn.Results = field(d.Type.Results)
	if d.Body == nil {
		return fn
	}
	type loc struct {
		pos  token.Pos
		name string
		typ  string
		init string
		obj  types.Object
	}
	// loop variables of loops outside function literals (pre-order ordinal as in the contracts): an invariant that names
	// the element or index variable can be re-read over the ranged expression and the iteration ghost
	roles := loopRoles(p, d.Body)
	fn.LoopSeq = loopSeqOf[d.Body]
	if pr := loopPrintOf[d.Body]; pr != nil {
		fn.Loops = *pr
	}
	// boolean flags declared with a literal: the literal tells an inverted flag (allNull := true -> anyPrepared := false)
	inits := map[*ast.Ident]string{}
	boolLit := func(e ast.Expr) string {
		if id, ok := ast.Unparen(e).(*ast.Ident); ok && (id.Name == "true" || id.Name == "false") {
			return id.Name
		}
		return ""
	}
	ast.Inspect(d.Body, func(n ast.Node) bool {
		switch st := n.(type) {
		case *ast.AssignStmt:
			if st.Tok == token.DEFINE && len(st.Lhs) == len(st.Rhs) {
				for i, l := range st.Lhs {
					if id, ok := l.(*ast.Ident); ok {
						inits[id] = boolLit(st.Rhs[i])
					}
				}
			}
		case *ast.ValueSpec:
			if len(st.Names) == len(st.Values) {
				for i, id := range st.Names {
					inits[id] = boolLit(st.Values[i])
				}
			}
		}
		return true
	})
	var locs []loc
	seen := map[types.Object]bool{}
	ast.Inspect(d.Body, func(n ast.Node) bool {
		id, ok := n.(*ast.Ident)
		if !ok || id.Name == "_" {
			return true
		}
		o, ok := p.TypesInfo.Defs[id].(*types.Var)
		if !ok || o == nil || o.IsField() || seen[o] {
			return true
		}
		seen[o] = true
		locs = append(locs, loc{o.Pos(), o.Name(), typeStr(o.Type()), inits[id], o})
		return true
	})
	var loopBodies [][2]int
	ast.Inspect(d.Body, func(n ast.Node) bool {
		switch st := n.(type) {
		case *ast.ForStmt:
			loopBodies = append(loopBodies, [2]int{int(st.Body.Pos()), int(st.Body.End())})
		case *ast.RangeStmt:
			loopBodies = append(loopBodies, [2]int{int(st.Body.Pos()), int(st.Body.End())})
		}
		return true
	})
	// locals that merely name a field path (reply := input.success): callee texts written over the path also match the local
	fn.Intro = map[string]string{}
	ast.Inspect(d.Body, func(n ast.Node) bool {
		as, ok := n.(*ast.AssignStmt)
		if !ok || as.Tok != token.DEFINE || len(as.Lhs) != len(as.Rhs) {
			return true
		}
		for i, l := range as.Lhs {
			id, ok := l.(*ast.Ident)
			if !ok || id.Name == "_" {
				continue
			}
			pure, sel := true, false
			ast.Inspect(as.Rhs[i], func(m ast.Node) bool {
				switch m.(type) {
				case *ast.Ident:
				case *ast.SelectorExpr:
					sel = true
				case nil:
				default:
					pure = false
				}
				return pure
			})
			if pure && sel {
				fn.Intro[exprStr(as.Rhs[i])] = id.Name
			}
		}
		return true
	})
	seenCallee := map[string]bool{}
	ast.Inspect(d.Body, func(n ast.Node) bool {
		if c, ok := n.(*ast.CallExpr); ok {
			if ix, ok := ast.Unparen(c.Fun).(*ast.IndexExpr); ok {
				if tv, ok := p.TypesInfo.Types[ix]; ok {
					if _, isSig := tv.Type.Underlying().(*types.Signature); isSig && !seenCallee[exprStr(ix)] {
						seenCallee[exprStr(ix)] = true
						fn.Callees = append(fn.Callees, [2]string{exprStr(ix), typeStr(tv.Type)})
					}
				}
			}
		}
		return true
	})
	// implicit objects of type switches (x := y.(type)) are recorded per clause: one entry by name is enough
	sort.SliceStable(locs, func(i, j int) bool { return locs[i].pos < locs[j].pos })
	for _, l := range locs {
		fn.Locals = append(fn.Locals, [4]string{l.name, l.typ, l.init, roles[l.obj]})
		fn.LocalPos = append(fn.LocalPos, int(l.pos))
		dep := 0
		for _, lb := range loopBodies {
			if lb[0] <= int(l.pos) && int(l.pos) < lb[1] {
				dep++
			}
		}
		fn.Depth = append(fn.Depth, dep)
	}
	return fn
}

func fieldNames(fl *ast.FieldList) []string {
	var out []string
	if fl == nil {
		return out
	}
	for _, f := range fl.List {
		if len(f.Names) == 0 {
			out = append(out, "")
		}
		for _, n := range f.Names {
			out = append(out, n.Name)
		}
	}
	return out
}

// litForKey returns the function literal a contract key "F$N" refers to (N-th literal of F, pre-order).
func (E *Engine) litForKey(p *packages.Package, key string) *ast.FuncLit {
	i := strings.Index(key, "$")
	if i < 0 {
		return nil
	}
	d := E.findDecl(p, key[:i])
	ord := 0
	fmt.Sscanf(key[i+1:], "%d", &ord)
	if d == nil || d.Body == nil || ord <= 0 {
		return nil
	}
	var lit *ast.FuncLit
	n := 0
	ast.Inspect(d.Body, func(nd ast.Node) bool {
		if fl, ok := nd.(*ast.FuncLit); ok {
			n++
			if n == ord {
				lit = fl
			}
		}
		return lit == nil
	})
	return lit
}

// namesOfLit: the names a function literal's contract can refer to: its own parameters positionally, the enclosing
// function's receiver and parameters (captured), and every local of the enclosing function.
func (E *Engine) namesOfLit(p *packages.Package, key string) (funcNames, bool) {
	lit := E.litForKey(p, key)
	d := E.declForKey(p, key)
	if lit == nil || d == nil {
		return funcNames{}, false
	}
	outer := namesOfDecl(p, d)
	fn := funcNames{Recv: outer.Recv, Params: fieldNames(lit.Type.Params), Results: fieldNames(lit.Type.Results), Outer: outer.Params, Locals: outer.Locals, LocalPos: outer.LocalPos, Callees: outer.Callees}
	// loops inside the literal are numbered from 1 within it (the literal is verified as a function of its own)
	lr := loopRoles(p, lit.Body)
	fn.LoopSeq = loopSeqOf[lit.Body]
	byPos := map[int]string{}
	for o, r := range lr {
		if o != nil {
			byPos[int(o.Pos())] = r
		}
	}
	fn.Locals = append([][4]string(nil), fn.Locals...)
	for i := range fn.Locals {
		if i < len(fn.LocalPos) && fn.LocalPos[i] >= int(lit.Pos()) && fn.LocalPos[i] <= int(lit.End()) {
			fn.Locals[i][3] = byPos[fn.LocalPos[i]]
		}
	}
	return fn, true
}

// sitesOf lists, for the callee texts that have site-keyed stepping stones (after callee#n), what each call of that callee
// (in source order, outside function literals) is assigned to: the n-th call is then recognised by its target when
// independent statements are reordered.
func sitesOf(d *ast.FuncDecl, c *FuncContract, unren map[string]string) map[string][]string {
	want := map[string]bool{}
	for k := range c.After {
		if i := strings.LastIndex(k, "#"); i > 0 {
			want[k[:i]] = true
		}
	}
	if len(want) == 0 || d == nil || d.Body == nil {
		return nil
	}
	out := map[string][]string{}
	var visit func(n ast.Node, lhs string)
	visit = func(n ast.Node, lhs string) {
		ast.Inspect(n, func(m ast.Node) bool {
			switch st := m.(type) {
			case *ast.FuncLit:
				return false
			case *ast.AssignStmt:
				if len(st.Lhs) >= 1 && m != n {
					for _, r := range st.Rhs {
						visit(r, exprStr(st.Lhs[0]))
					}
					for _, l := range st.Lhs {
						visit(l, "")
					}
					return false
				}
			case *ast.CallExpr:
				text := exprStr(ast.Unparen(st.Fun))
				if want[text] {
					out[text] = append(out[text], lhs)
				}
			}
			return true
		})
	}
	visit(d.Body, "")
	return out
}


// loopRoles: the loop variables of the loops in body (function literals excluded), keyed by object, with the loop's
// pre-order ordinal as the contracts count it.
var loopSeqOf = map[ast.Node]map[string]string{}
var loopPrintOf = map[ast.Node]*[]string{}

func loopRoles(p *packages.Package, body ast.Node) map[types.Object]string {
	seqs := map[string]string{}
	loopSeqOf[body] = seqs
	prints := &[]string{}
	loopPrintOf[body] = prints
	roles := map[types.Object]string{}
	ord := 0
	var walk func(n ast.Node)
	walk = func(n ast.Node) {
		ast.Inspect(n, func(m ast.Node) bool {
			switch st := m.(type) {
			case *ast.FuncLit:
				return false
			case *ast.RangeStmt:
				ord++
				*prints = append(*prints, "seq "+exprStr(st.X))
				if tv, ok := p.TypesInfo.Types[st.X]; ok {
					if _, isSl := tv.Type.Underlying().(*types.Slice); isSl && !strings.Contains(exprStr(st.X), "…") {
						seqs[fmt.Sprint(ord)] = exprStr(st.X)
					}
				}
				if st.Tok == token.DEFINE {
					if id, ok := st.Key.(*ast.Ident); ok && id.Name != "_" {
						if tv, ok := p.TypesInfo.Types[st.X]; ok {
							if _, isSl := tv.Type.Underlying().(*types.Slice); isSl {
								roles[p.TypesInfo.Defs[id]] = fmt.Sprintf("idx:%d", ord)
							}
							if b, isB := tv.Type.Underlying().(*types.Basic); isB && b.Info()&types.IsInteger != 0 {
								roles[p.TypesInfo.Defs[id]] = fmt.Sprintf("idx:%d", ord)
							}
						}
					}
					if id, ok := st.Value.(*ast.Ident); ok && id.Name != "_" {
						if tv, ok := p.TypesInfo.Types[st.X]; ok {
							if _, isSl := tv.Type.Underlying().(*types.Slice); isSl {
								roles[p.TypesInfo.Defs[id]] = fmt.Sprintf("val:%d:%s", ord, exprStr(st.X))
							}
						}
					}
				}
			case *ast.ForStmt:
				ord++
				fp := "for"
				if st.Cond != nil {
					fp = "for " + exprStr(st.Cond)
					// `for i := 0; i < len(x); i++` walks x like `range x`
					if be, ok := st.Cond.(*ast.BinaryExpr); ok && be.Op == token.LSS {
						if cl, ok := ast.Unparen(be.Y).(*ast.CallExpr); ok && len(cl.Args) == 1 {
							if fid, ok := cl.Fun.(*ast.Ident); ok && fid.Name == "len" {
								fp = "seq " + exprStr(cl.Args[0])
							}
						}
					}
				}
				*prints = append(*prints, fp)
				if be, ok := st.Cond.(*ast.BinaryExpr); ok && be.Op == token.LSS {
					if c, ok := ast.Unparen(be.Y).(*ast.CallExpr); ok && len(c.Args) == 1 {
						if fid, ok := c.Fun.(*ast.Ident); ok && fid.Name == "len" {
							seqs[fmt.Sprint(ord)] = exprStr(c.Args[0])
						}
					}
				}
				if as, ok := st.Init.(*ast.AssignStmt); ok && as.Tok == token.DEFINE && len(as.Lhs) == 1 && len(as.Rhs) == 1 {
					if id, ok := as.Lhs[0].(*ast.Ident); ok {
						if inc, ok := st.Post.(*ast.IncDecStmt); ok && inc.Tok == token.INC {
							if lit, ok := as.Rhs[0].(*ast.BasicLit); ok && lit.Value == "0" {
								roles[p.TypesInfo.Defs[id]] = fmt.Sprintf("idx:%d", ord)
							} else {
								roles[p.TypesInfo.Defs[id]] = fmt.Sprintf("ctr:%d", ord) // counts from another start: the loop's variable, but not its iteration number
							}
						}
					}
				}
			}
			return true
		})
	}
	walk(body)
	return roles
}

// declForKey finds the declaration a contract key refers to ("F", "T.M", "F$N" -> the enclosing F).
func (E *Engine) declForKey(p *packages.Package, key string) *ast.FuncDecl {
	if i := strings.Index(key, "$"); i >= 0 {
		key = key[:i]
	}
	return E.findDecl(p, key)
}

// collectNames builds the record for every function under contract in the loaded packages.
func (E *Engine) collectNames() map[string]funcNames {
	out := map[string]funcNames{}
	for path, p := range E.pkgs {
		pc := E.contractsOf(path)
		if pc == nil {
			continue
		}
		for key, c := range pc.Funcs {
			if c.Assumed {
				continue
			}
			if strings.Contains(key, "$") {
				if fn, ok := E.namesOfLit(p, key); ok {
					out[strings.TrimPrefix(path, modulePath+"/")+"."+key] = fn
				}
				continue
			}
			d := E.declForKey(p, key)
			if d == nil {
				continue
			}
			fnn := namesOfDecl(p, d)
			fnn.Sites = sitesOf(d, c, nil)
			out[strings.TrimPrefix(path, modulePath+"/")+"."+key] = fnn
		}
	}
	return out
}

func loadNames(root string) map[string]funcNames {
	b, err := os.ReadFile(filepath.Join(root, "ledger", "names.json"))
	if err != nil {
		return nil
	}
	var m map[string]funcNames
	if json.Unmarshal(b, &m) != nil {
		return nil
	}
	return m
}

// renamesFor compares the recorded names of a function with its current declaration.
func renamesFor(rec, cur funcNames) map[string]string {
	ren := map[string]string{}
	curAll := map[string]bool{}
	recAll := map[string]bool{}
	add := func(m map[string]bool, fn funcNames) {
		if fn.Recv != "" {
			m[fn.Recv] = true
		}
		for _, s := range fn.Params {
			m[s] = true
		}
		for _, s := range fn.Results {
			m[s] = true
		}
		for _, l := range fn.Locals {
			m[l[0]] = true
		}
	}
	add(curAll, cur)
	add(recAll, rec)
	curSlots := map[string]bool{}
	if cur.Recv != "" {
		curSlots[cur.Recv] = true
	}
	for _, x := range cur.Params {
		curSlots[x] = true
	}
	for _, x := range cur.Results {
		curSlots[x] = true
	}
	slot := func(o, n string) {
		// positional: the clause meant this parameter whatever the recorded name denotes now (a new local may reuse it);
		// a name that is still a receiver / parameter / result of the function is left to its own slot
		if o != "" && o != "_" && n != "" && n != "_" && o != n && !curSlots[o] {
			ren[o] = n
		}
	}
	slot(rec.Recv, cur.Recv)
	if len(rec.Params) == len(cur.Params) {
		for i := range rec.Params {
			slot(rec.Params[i], cur.Params[i])
		}
	}
	if len(rec.Results) == len(cur.Results) {
		for i := range rec.Results {
			slot(rec.Results[i], cur.Results[i])
		}
	}
	// occurrence-level matching of the locals (a name may be declared several times in different scopes)
	matchedOld := make([]bool, len(rec.Locals))
	matchedNew := make([]bool, len(cur.Locals))
	for pass := 0; pass < 2; pass++ {
		for i, l := range rec.Locals {
			if matchedOld[i] {
				continue
			}
			for j, c := range cur.Locals {
				if matchedNew[j] || c[0] != l[0] || (pass == 0 && c[1] != l[1]) {
					continue
				}
				matchedOld[i], matchedNew[j] = true, true
				break
			}
		}
	}
	// the index variable of the same loop (by ordinal) first
	for i, l := range rec.Locals {
		if matchedOld[i] || !(strings.HasPrefix(l[3], "idx:") || strings.HasPrefix(l[3], "ctr:")) {
			continue
		}
		for j, c := range cur.Locals {
			if matchedNew[j] || len(c[3]) < 4 || c[3][:3] == "val" || c[3][4:] != l[3][4:] || c[1] != l[1] || recAll[c[0]] {
				continue
			}
			matchedOld[i], matchedNew[j] = true, true
			dup := 0
			for _, l2 := range rec.Locals {
				if l2[0] == l[0] {
					dup++
				}
			}
			if dup > 1 || curAll[l[0]] {
				ren[aliasMark+l[0]] += fmt.Sprintf("%s@%d,", c[0], cur.LocalPos[j])
			} else {
				ren[l[0]] = c[0]
				ren[noCallMark+l[0]] = "1"
			}
			break
		}
	}
	for i, l := range rec.Locals {
		if matchedOld[i] || ren[l[0]] != "" || ren[aliasMark+l[0]] != "" {
			continue
		}
		var cands []int
		for j, c := range cur.Locals {
			if matchedNew[j] || recAll[c[0]] || c[1] != l[1] {
				continue
			}
			if l[3] == "" && c[3] != "" {
				continue // a loop's own variable does not stand in for an ordinary local
			}
			cands = append(cands, j)
		}
		if len(cands) == 0 {
			// a function-typed loop variable that was called: the call may now go through the indexed slice directly
			done := false
			for _, ce := range cur.Callees {
				was := false
				for _, oe := range rec.Callees {
					if oe[0] == ce[0] {
						was = true
					}
				}
				if !was && ce[1] == l[1] && !curAll[l[0]] {
					ren[l[0]] = ce[0]
					done = true
					break
				}
			}
			if done {
				continue
			}
		}
		if len(cands) == 0 {
			// no new local of that type: a loop's element / index variable can still be read through the loop itself
			expr := ""
			if strings.HasPrefix(l[3], "idx:") {
				expr = "$i" + strings.TrimPrefix(l[3], "idx:")
			} else if strings.HasPrefix(l[3], "val:") {
				parts := strings.SplitN(strings.TrimPrefix(l[3], "val:"), ":", 2)
				if len(parts) == 2 {
					if y := cur.LoopSeq[parts[0]]; y != "" {
						// what the loop with that ordinal walks over now
						expr = "\x01(" + y + ")[$i" + parts[0] + "]"
					} else if !strings.Contains(parts[1], "…") {
						expr = "(" + parts[1] + ")[$i" + parts[0] + "]"
					}
				}
			}
			if expr != "" {
				if curAll[l[0]] {
					ren[aliasMark+l[0]] += expr + ","
				} else {
					ren[l[0]] = expr
					ren[noCallMark+l[0]] = "1"
				}
			}
			continue
		}
		// as many unmatched recorded locals of this type as unmatched new ones: pair them in source order
		if len(cands) > 1 && !curAll[l[0]] {
			var olds []int
			for i2, l2 := range rec.Locals {
				if !matchedOld[i2] && l2[1] == l[1] && !curAll[l2[0]] {
					olds = append(olds, i2)
				}
			}
			if len(olds) == len(cands) {
				sameName := 0
				for _, i2 := range olds {
					if rec.Locals[i2][0] == l[0] {
						sameName++
					}
				}
				if sameName == 1 {
					// pair declarations at the same loop depth first (a per-iteration temporary stays one), then the rest,
					// each in source order
					pair := map[int]int{}
					usedC := map[int]bool{}
					depthOf := func(fn funcNames, k int) int {
						if k < len(fn.Depth) {
							return fn.Depth[k]
						}
						return -1
					}
					for _, i2 := range olds {
						for _, j2 := range cands {
							if !usedC[j2] && depthOf(rec, i2) == depthOf(cur, j2) && depthOf(rec, i2) >= 0 {
								pair[i2], usedC[j2] = j2, true
								break
							}
						}
					}
					for _, i2 := range olds {
						if _, ok := pair[i2]; ok {
							continue
						}
						for _, j2 := range cands {
							if !usedC[j2] {
								pair[i2], usedC[j2] = j2, true
								break
							}
						}
					}
					if j2, ok := pair[i]; ok {
						cands = []int{j2}
					}
				}
			}
		}
		if curAll[l[0]] || len(cands) > 1 {
			// the name is still declared in another scope, or several new locals of its type exist (a reused variable
			// split in two): the new names are aliases, tried where the recorded name is not in scope at the clause's
			// program point; among several the one declared last before that point is taken
			for _, j := range cands {
				ren[aliasMark+l[0]] += cur.Locals[j][0] + ","
				if curAll[l[0]] {
					matchedNew[j] = true
					break
				}
			}
			continue
		}
		c := cur.Locals[cands[0]]
		matchedNew[cands[0]] = true
		matchedOld[i] = true
		ren[l[0]] = c[0]
		if !strings.HasPrefix(l[1], "func(") {
			ren[noCallMark+l[0]] = "1"
		}
		if l[1] == "bool" && l[2] != "" && c[2] != "" && l[2] != c[2] {
			// a flag declared with the opposite literal: the clauses read it negated
			ren[l[0]] = "(!" + c[0] + ")"
		}
	}
	return ren
}

// noCallMark+name in a rename map: name is not a function-typed variable, so `name(` in a clause is a spec function or a
// declared function of the same name and stays.
const noCallMark = "\x00nocall:"

// aliasMark+name: comma separated new names of a recorded local whose own name is still declared in another scope
const aliasMark = "\x00alias:"

// renameText rewrites the free identifiers of a clause / callee text (an identifier after '.' is a selector and stays).
func renameText(s string, ren map[string]string) string {
	if len(ren) == 0 {
		return s
	}
	var b strings.Builder
	isStart := func(c byte) bool { return c == '_' || (c >= 'a' && c <= 'z') || (c >= 'A' && c <= 'Z') }
	isPart := func(c byte) bool { return isStart(c) || (c >= '0' && c <= '9') }
	prevSig := byte(0) // last non-space byte written
	for i := 0; i < len(s); {
		c := s[i]
		if isStart(c) && !(i > 0 && (isPart(s[i-1]) || s[i-1] == '$')) {
			j := i
			for j < len(s) && isPart(s[j]) {
				j++
			}
			w := s[i:j]
			k := j
			for k < len(s) && (s[k] == ' ' || s[k] == '\t') {
				k++
			}
			called := k < len(s) && s[k] == '('
			if n, ok := ren[w]; ok && prevSig != '.' && !(called && ren[noCallMark+w] != "") {
				b.WriteString(n)
			} else {
				b.WriteString(w)
			}
			prevSig = s[j-1]
			i = j
			continue
		}
		b.WriteByte(c)
		if c != ' ' && c != '\t' {
			prevSig = c
		}
		i++
	}
	return b.String()
}

func renameClauses(cs []Clause, ren map[string]string) {
	for i := range cs {
		cs[i].Text = renameText(cs[i].Text, ren)
	}
}

func renameClauseMap(m map[string][]Clause, ren map[string]string) map[string][]Clause {
	if m == nil {
		return nil
	}
	out := map[string][]Clause{}
	for k, cs := range m {
		renameClauses(cs, ren)
		nk := renameText(k, ren)
		out[nk] = append(out[nk], cs...)
	}
	return out
}

func renameStrings(xs []string, ren map[string]string) {
	for i := range xs {
		xs[i] = renameText(xs[i], ren)
	}
}

// unrenameObligation maps the callee texts and closure names inside an obligation name back to the recorded identifiers.
var reLoopName = regexp.MustCompile(`(^|[/.])loop(\d+)\.`)

func unpermLoops(name string, unperm map[int]int) string {
	if len(unperm) == 0 {
		return name
	}
	return reLoopName.ReplaceAllStringFunc(name, func(m string) string {
		sub := reLoopName.FindStringSubmatch(m)
		var n int
		fmt.Sscanf(sub[2], "%d", &n)
		if o, ok := unperm[n]; ok {
			return fmt.Sprintf("%sloop%d.", sub[1], o)
		}
		return m
	})
}

func unrenameObligation(name, key string, inv map[string]string, texts [][2]string) string {
	for _, t := range texts {
		name = strings.ReplaceAll(name, "."+t[0]+"#", "."+t[1]+"#")
	}
	rest := strings.TrimPrefix(name, key+"/")
	if rest == name {
		return name
	}
	for _, pre := range []string{"callreq.", "after.", "call-cover.", "call.", "nopanic.callee.", "fresharg.", "readonly.", ""} {
		if strings.HasPrefix(rest, pre) {
			return key + "/" + pre + renameText(rest[len(pre):], inv)
		}
	}
	return name
}

// applyRenames rewrites one contract in place.
func applyRenames(c *FuncContract, ren map[string]string) {
	for o, n := range ren {
		if strings.HasPrefix(n, "\x01") {
			ren[o] = n[1:]
			continue
		}
		if strings.HasPrefix(n, "(") && strings.Contains(n, "$i") {
			plain := map[string]string{}
			for o2, n2 := range ren {
				if o2 != o && !strings.HasPrefix(n2, "(") && !strings.HasPrefix(o2, "\x00") {
					plain[o2] = n2
				}
			}
			ren[o] = renameText(n, plain)
		}
	}
	c.Unrename = map[string]string{}
	c.renameMap = ren
	for o, n := range ren {
		if strings.HasPrefix(o, aliasMark) {
			if c.Alias == nil {
				c.Alias = map[string][]string{}
			}
			plain := map[string]string{}
			for o2, n2 := range ren {
				if !strings.HasPrefix(o2, "\x00") && !strings.HasPrefix(n2, "(") && !strings.HasPrefix(n2, "\x01") {
					plain[o2] = n2
				}
			}
			var alts []string
			for _, a := range strings.Split(strings.TrimSuffix(n, ","), ",") {
				switch {
				case strings.HasPrefix(a, "\x01"):
					a = a[1:] // already written with the current names
				case strings.ContainsAny(a, "$(["):
					a = renameText(a, plain)
				}
				alts = append(alts, a)
			}
			c.Alias[strings.TrimPrefix(o, aliasMark)] = alts
			continue
		}
		if !strings.HasPrefix(n, "(") && !strings.HasPrefix(o, noCallMark) {
			if strings.ContainsAny(n, "[]") {
				c.UnrenameText = append(c.UnrenameText, [2]string{n, o})
			} else {
				c.Unrename[n] = o
			}
		}
	}
	for o := range ren {
		if strings.HasPrefix(o, aliasMark) {
			delete(ren, o)
		}
	}
	renameClauses(c.Requires, ren)
	renameClauses(c.Ensures, ren)
	renameClauses(c.Canary, ren)
	renameClauses(c.Asserts, ren)
	for _, cs := range c.LoopInv {
		renameClauses(cs, ren)
	}
	for _, cs := range c.LoopRet {
		renameClauses(cs, ren)
	}
	for _, cs := range c.LoopBrk {
		renameClauses(cs, ren)
	}
	for _, xs := range c.LoopMod {
		renameStrings(xs, ren)
	}
	renameStrings(c.Assigns, ren)
	renameStrings(c.ReadOnly, ren)
	renameStrings(c.Havoc, ren)
	for i := range c.FreshArgs {
		c.FreshArgs[i][0] = renameText(c.FreshArgs[i][0], ren)
	}
	c.CallReq = renameClauseMap(c.CallReq, ren)
	c.GhostCall = renameClauseMap(c.GhostCall, ren)
	c.RecvAssume = renameClauseMap(c.RecvAssume, ren)
	c.After = renameClauseMap(c.After, ren)
	c.expandCalleeAliases()
	if c.AssumeNoPanic != nil {
		m := map[string]string{}
		for k, v := range c.AssumeNoPanic {
			m[renameText(k, ren)] = v
		}
		c.AssumeNoPanic = m
	}
}

// repairNames applies the recorded-name repair to every contract of a package (called once, when the contracts of a
// loaded package are first read).
func (E *Engine) repairNames(pkgPath string, pc *PkgContracts) {
	if E.names == nil {
		return
	}
	p := E.pkgs[pkgPath]
	if p == nil || len(p.Syntax) == 0 {
		return
	}
	rel := strings.TrimPrefix(pkgPath, modulePath+"/")
	keys := make([]string, 0, len(pc.Funcs))
	for k := range pc.Funcs {
		keys = append(keys, k)
	}
	sort.Strings(keys)
	for _, key := range keys {
		c := pc.Funcs[key]
		base := key
		if i := strings.Index(base, "$"); i >= 0 {
			base = base[:i]
		}
		if c.Assumed {
			continue
		}
		var rec, cur funcNames
		if base != key {
			r, ok := E.names[rel+"."+key]
			cn, ok2 := E.namesOfLit(p, key)
			if !ok || !ok2 {
				continue
			}
			rec, cur = r, cn
		} else {
			r, ok := E.names[rel+"."+base]
			d := E.findDecl(p, base)
			if !ok || d == nil {
				continue
			}
			rec, cur = r, namesOfDecl(p, d)
		}
		ren := renamesFor(rec, cur)
		if len(rec.Outer) == len(cur.Outer) {
			for i := range rec.Outer {
				if o, n := rec.Outer[i], cur.Outer[i]; o != "" && o != "_" && n != "" && n != "_" && o != n && ren[o] == "" {
					ren[o] = n
				}
			}
		}
		if len(cur.Intro) > 0 {
			recNames := map[string]bool{}
			for _, l := range rec.Locals {
				recNames[l[0]] = true
			}
			addVariant := func(m map[string][]Clause) {
				for k, cs := range m {
					for expr, local := range cur.Intro {
						if recNames[local] || !strings.Contains(k, expr) {
							continue
						}
						// whole-path occurrence only (followed by end of text or a non-identifier character)
						i := strings.Index(k, expr)
						j := i + len(expr)
						if (i > 0 && (k[i-1] == '.' || k[i-1] == '_' || (k[i-1] >= 'a' && k[i-1] <= 'z') || (k[i-1] >= 'A' && k[i-1] <= 'Z'))) || (j < len(k) && (k[j] == '_' || (k[j] >= 'a' && k[j] <= 'z') || (k[j] >= 'A' && k[j] <= 'Z') || (k[j] >= '0' && k[j] <= '9'))) {
							continue
						}
						nk := k[:i] + local + k[j:]
						if _, exists := m[nk]; !exists {
							m[nk] = append([]Clause(nil), cs...)
							c.UnrenameText = append(c.UnrenameText, [2]string{nk, k})
							E.nameRepairs = append(E.nameRepairs, fmt.Sprintf("%s.%s: clauses keyed by %q also apply to %q (local introduced for that path)", rel, key, k, nk))
						}
					}
				}
			}
			addVariant(c.CallReq)
			addVariant(c.After)
			addVariant(c.GhostCall)
			addVariant(c.RecvAssume)
		}
		if base == key && len(rec.Loops) == len(cur.Loops) && len(rec.Loops) > 1 {
			plain := map[string]string{}
			for o, n := range ren {
				if !strings.HasPrefix(o, "\x00") && !strings.HasPrefix(n, "(") && !strings.HasPrefix(n, "\x01") {
					plain[o] = n
				}
			}
			perm := map[int]int{}
			used := map[int]bool{}
			okPerm, moved := true, false
			for n, fp := range rec.Loops {
				want := renameText(fp, plain)
				hit := -1
				for m2, cf := range cur.Loops {
					if cf == want && !used[m2] {
						if hit >= 0 {
							okPerm = false
						}
						hit = m2
					}
				}
				if hit < 0 {
					okPerm = false
					break
				}
				used[hit] = true
				perm[n+1] = hit + 1
				if hit != n {
					moved = true
				}
			}
			if okPerm && moved {
				applyLoopPerm(c, perm)
				E.nameRepairs = append(E.nameRepairs, fmt.Sprintf("%s.%s: loop clauses follow the reordered loops %v", rel, key, perm))
			}
		}
		if base == key && len(rec.Sites) > 0 {
			if d := E.findDecl(p, base); d != nil {
				plain := map[string]string{}
				for o, n := range ren {
					if !strings.HasPrefix(o, "\x00") && !strings.HasPrefix(n, "(") {
						plain[o] = n
					}
				}
				tmp := &FuncContract{After: map[string][]Clause{}}
				for k := range c.After {
					tmp.After[renameText(k, plain)] = nil
				}
				curSites := sitesOf(d, tmp, nil)
				for text, targets := range rec.Sites {
					ntext := renameText(text, plain)
					cs := curSites[ntext]
					moved := false
					m := map[string]int{}
					for n, tgt := range targets {
						want := renameText(tgt, plain)
						hit := -1
						for k, ct := range cs {
							if ct == want && want != "" {
								if hit >= 0 {
									hit = -2 // ambiguous
									break
								}
								hit = k
							}
						}
						if hit >= 0 {
							m[fmt.Sprintf("%s#%d", ntext, hit+1)] = n + 1
							if hit != n {
								moved = true
							}
						}
					}
					if moved {
						if c.SiteMap == nil {
							c.SiteMap = map[string]int{}
						}
						for k, v := range m {
							c.SiteMap[k] = v
						}
						E.nameRepairs = append(E.nameRepairs, fmt.Sprintf("%s.%s: stepping stones of %s follow their assignment targets to the reordered call sites", rel, key, text))
					}
				}
			}
		}
		if len(ren) == 0 {
			continue
		}
		var parts []string
		for o, n := range ren {
			if strings.HasPrefix(o, aliasMark) {
				parts = append(parts, strings.TrimPrefix(o, aliasMark)+"~>"+strings.TrimSuffix(n, ","))
			} else if !strings.HasPrefix(o, noCallMark) {
				parts = append(parts, o+"->"+n)
			}
		}
		sort.Strings(parts)
		applyRenames(c, ren)
		msg := fmt.Sprintf("%s.%s: clauses re-read with renamed identifiers %s", rel, key, strings.Join(parts, ", "))
		E.nameRepairs = append(E.nameRepairs, msg)
	}
}

func cmdNames(args []string) {
	root := verifRoot()
	var props map[string]PropCfg
	b, err := os.ReadFile(filepath.Join(root, "props.json"))
	if err != nil {
		fmt.Fprintln(os.Stderr, err)
		os.Exit(3)
	}
	if err := json.Unmarshal(b, &props); err != nil {
		fmt.Fprintln(os.Stderr, err)
		os.Exit(3)
	}
	set := map[string]bool{}
	for _, c := range props {
		for _, p := range c.Packages {
			set[p] = true
		}
	}
	var pats []string
	for p := range set {
		pats = append(pats, p)
	}
	sort.Strings(pats)
	repo := "/repo"
	if len(args) > 1 && args[0] == "-repo" {
		repo = args[1]
	}
	E := NewEngine(repo)
	if err := E.Load(pats); err != nil {
		fmt.Fprintln(os.Stderr, "load error:", err)
		os.Exit(3)
	}
	m := E.collectNames()
	writeJSON(filepath.Join(root, "ledger", "names.json"), m)
	fmt.Printf("names: %d functions under contract recorded\n", len(m))
}


// applyLoopPerm renumbers the loop clauses of a contract (recorded ordinal -> current ordinal) when independent loops were
// reordered; obligation names keep the recorded ordinals.
func applyLoopPerm(c *FuncContract, perm map[int]int) {
	reI := regexp.MustCompile(`\$i(\d+)`)
	fix := func(t string) string {
		return reI.ReplaceAllStringFunc(t, func(m string) string {
			var n int
			fmt.Sscanf(m, "$i%d", &n)
			if v, ok := perm[n]; ok {
				return fmt.Sprintf("$i%d", v)
			}
			return m
		})
	}
	fixAll := func(cs []Clause) {
		for i := range cs {
			cs[i].Text = fix(cs[i].Text)
		}
	}
	remap := func(m map[int][]Clause) map[int][]Clause {
		if m == nil {
			return nil
		}
		out := map[int][]Clause{}
		for k, cs := range m {
			fixAll(cs)
			nk := k
			if v, ok := perm[k]; ok {
				nk = v
			}
			out[nk] = cs
		}
		return out
	}
	c.LoopInv = remap(c.LoopInv)
	c.LoopRet = remap(c.LoopRet)
	c.LoopBrk = remap(c.LoopBrk)
	if c.LoopMod != nil {
		out := map[int][]string{}
		for k, v := range c.LoopMod {
			nk := k
			if w, ok := perm[k]; ok {
				nk = w
			}
			out[nk] = v
		}
		c.LoopMod = out
	}
	fixAll(c.Requires)
	fixAll(c.Ensures)
	fixAll(c.Canary)
	for _, cs := range c.CallReq {
		fixAll(cs)
	}
	for _, cs := range c.After {
		fixAll(cs)
	}
	for _, cs := range c.GhostCall {
		fixAll(cs)
	}
	c.LoopUnperm = map[int]int{}
	for o, n := range perm {
		c.LoopUnperm[n] = o
	}
}


// expandCalleeAliases: a recorded local that now goes by several names (declared in several scopes, or split) cannot be
// resolved per program point where it appears in a *callee text* (callreq x.M, ncalls(x.M)). Clauses keyed by such a callee
// are attached to the callee under every alias, and a counter over it becomes the sum of the counters over the aliases.
func (c *FuncContract) expandCalleeAliases() {
	if len(c.Alias) == 0 {
		return
	}
	plainAliases := func(name string) []string {
		var out []string
		for _, a := range c.Alias[name] {
			if at := strings.Index(a, "@"); at > 0 {
				a = a[:at]
			}
			if strings.ContainsAny(a, "$([") {
				continue
			}
			dup := false
			for _, o := range out {
				if o == a {
					dup = true
				}
			}
			if !dup {
				out = append(out, a)
			}
		}
		return out
	}
	lead := func(key string) (string, string) {
		k := strings.TrimPrefix(key, "after:")
		i := strings.Index(k, ".")
		if i <= 0 {
			return "", ""
		}
		return k[:i], k[i:]
	}
	expandMap := func(m map[string][]Clause) map[string][]Clause {
		if m == nil {
			return nil
		}
		out := map[string][]Clause{}
		for k, cs := range m {
			head, rest := lead(k)
			al := plainAliases(head)
			if head == "" || len(al) == 0 {
				out[k] = append(out[k], cs...)
				continue
			}
			pre := ""
			if strings.HasPrefix(k, "after:") {
				pre = "after:"
			}
			for _, a := range al {
				nk := pre + a + rest
				out[nk] = append(out[nk], cs...)
				c.UnrenameText = append(c.UnrenameText, [2]string{a + rest, head + rest})
			}
		}
		return out
	}
	c.CallReq = expandMap(c.CallReq)
	c.After = expandMap(c.After)
	c.GhostCall = expandMap(c.GhostCall)
	// counters: ncalls(x.M) -> (ncalls(a1.M) + ncalls(a2.M))
	reN := regexp.MustCompile(`ncalls\(([A-Za-z_][A-Za-z0-9_]*)(\.[A-Za-z0-9_.]+)\)`)
	fix := func(t string) string {
		return reN.ReplaceAllStringFunc(t, func(m string) string {
			sub := reN.FindStringSubmatch(m)
			al := plainAliases(sub[1])
			if len(al) == 0 {
				return m
			}
			var parts []string
			for _, a := range al {
				parts = append(parts, "ncalls("+a+sub[2]+")")
			}
			return "(" + strings.Join(parts, " + ") + ")"
		})
	}
	fixAll := func(cs []Clause) {
		for i := range cs {
			cs[i].Text = fix(cs[i].Text)
		}
	}
	fixAll(c.Requires)
	fixAll(c.Ensures)
	fixAll(c.Canary)
	for _, cs := range c.LoopInv {
		fixAll(cs)
	}
	for _, cs := range c.LoopRet {
		fixAll(cs)
	}
	for _, m := range []map[string][]Clause{c.CallReq, c.After, c.GhostCall} {
		for _, cs := range m {
			fixAll(cs)
		}
	}
}


// renamedCapture: the current name of a variable that the function containing lit had recorded under the name `name`
// (a closure's captured state is addressed as x.name in the contracts of the closure's users).
func (E *Engine) renamedCapture(p *packages.Package, lit *ast.FuncLit, name string) string {
	if E.names == nil || p == nil {
		return ""
	}
	for fn, d := range E.decls {
		if E.declPkg[fn] != p || d.Body == nil || lit.Pos() < d.Pos() || lit.End() > d.End() {
			continue
		}
		rel := strings.TrimPrefix(p.PkgPath, modulePath+"/")
		rec, ok := E.names[rel+"."+funcKey(fn)]
		if !ok {
			rec, ok = E.names[rel+"."+funcKey(fn)+"$1"]
			if !ok {
				return ""
			}
		}
		ren := renamesFor(rec, namesOfDecl(p, d))
		if n, ok := ren[name]; ok && !strings.ContainsAny(n, "($[") {
			return n
		}
		return ""
	}
	return ""
}
