package main

import (
	"fmt"
	"go/ast"
	"go/parser"
	"go/token"
	"go/types"
	"strconv"
	"strings"
)

// parseSpec parses a contract expression; ==> and <==> are supported at any nesting level.
func parseSpec(text string) (ast.Expr, error) {
	t := strings.ReplaceAll(text, "$", "__")
	t = strings.ReplaceAll(t, "<==>", "|| _IFF_ ||")
	t = strings.ReplaceAll(t, "==>", "|| _IMP_ ||")
	e, err := parser.ParseExpr(t)
	if err != nil {
		return nil, fmt.Errorf("parse %q: %v", text, err)
	}
	return e, nil
}

// flattenOr returns the operands of a left-assoc || chain.
func flattenOr(e ast.Expr) []ast.Expr {
	if b, ok := e.(*ast.BinaryExpr); ok && b.Op == token.LOR {
		return append(flattenOr(b.X), flattenOr(b.Y)...)
	}
	return []ast.Expr{e}
}

func isMarker(e ast.Expr, m string) bool {
	id, ok := e.(*ast.Ident)
	return ok && id.Name == m
}

// specExpr evaluates a parsed contract expression to a Bool/whatever term.
func (f *FuncCtx) specExpr(e ast.Expr, env *Env) Val {
	// handle the implication encoding first
	if b, ok := e.(*ast.BinaryExpr); ok && b.Op == token.LOR {
		ops := flattenOr(b)
		hasMarker := false
		for _, o := range ops {
			if isMarker(o, "_IMP_") || isMarker(o, "_IFF_") {
				hasMarker = true
			}
		}
		if hasMarker {
			return f.specOrChain(ops, env)
		}
	}
	if p, ok := e.(*ast.ParenExpr); ok {
		return f.specExpr(p.X, env)
	}
	if b, ok := e.(*ast.BinaryExpr); ok && b.Op == token.LOR {
		return f.binary(b, env)
	}
	return f.expr(e, env)
}

func (f *FuncCtx) specOrChain(ops []ast.Expr, env *Env) Val {
	// split on _IFF_ (lowest), then _IMP_ (right assoc), then or
	split := func(ops []ast.Expr, m string) [][]ast.Expr {
		var out [][]ast.Expr
		cur := []ast.Expr{}
		for _, o := range ops {
			if isMarker(o, m) {
				out = append(out, cur)
				cur = []ast.Expr{}
			} else {
				cur = append(cur, o)
			}
		}
		return append(out, cur)
	}
	orOf := func(ops []ast.Expr) string {
		var ts []string
		for _, o := range ops {
			ts = append(ts, f.specExpr(o, env).T)
		}
		if len(ts) == 1 {
			return ts[0]
		}
		return "(or " + strings.Join(ts, " ") + ")"
	}
	impOf := func(ops []ast.Expr) string {
		parts := split(ops, "_IMP_")
		// antecedents first: a literally false antecedent makes the clause vacuous at this program
		// point and its consequent (which may mention names not in scope here) is not evaluated
		var ants []string
		for i := 0; i < len(parts)-1; i++ {
			a := orOf(parts[i])
			if a == "false" {
				return "true"
			}
			ants = append(ants, a)
		}
		t := orOf(parts[len(parts)-1])
		for i := len(ants) - 1; i >= 0; i-- {
			t = fmt.Sprintf("(=> %s %s)", ants[i], t)
		}
		return t
	}
	iffs := split(ops, "_IFF_")
	t := impOf(iffs[0])
	for _, p := range iffs[1:] {
		t = fmt.Sprintf("(= %s %s)", t, impOf(p))
	}
	return f.boolVal(t)
}

// evalClauseVal translates a contract expression to a value (not necessarily boolean).
func (f *FuncCtx) evalClauseVal(cl Clause, env *Env, sc *specCtx) Val {
	e, err := parseSpec(cl.Text)
	if err != nil {
		f.fail("contract %s:%d: %v", shortPath(cl.File), cl.Line, err)
		return f.boolVal("true")
	}
	saved := f.spec
	f.spec = sc
	v := f.specExpr(e, env)
	f.spec = saved
	return v
}

// evalClause translates contract text in the given state.
func (f *FuncCtx) evalClause(cl Clause, env *Env, sc *specCtx) string {
	e, err := parseSpec(cl.Text)
	if err != nil {
		f.clauseErr = fmt.Sprintf("contract %s:%d: %v", shortPath(cl.File), cl.Line, err)
		f.cerrs = append(f.cerrs, f.clauseErr)
		return "true"
	}
	saved := f.spec
	f.spec = sc
	nerr := len(f.errs)
	v := f.specExpr(e, env)
	f.spec = saved
	if len(f.errs) > nerr {
		var es []string
		for i := nerr; i < len(f.errs); i++ {
			es = append(es, fmt.Sprintf("contract %s:%d: %s", shortPath(cl.File), cl.Line, f.errs[i]))
		}
		f.errs = f.errs[:nerr]
		f.clauseErr = strings.Join(es, "; ")
		f.cerrs = append(f.cerrs, es...)
		return "true"
	}
	f.clauseErr = ""
	return v.T
}

func shortPath(p string) string {
	return strings.TrimPrefix(p, "/repo/")
}

// specIdent resolves names in contract expressions.
func (f *FuncCtx) specIdent(name string, env *Env) (Val, bool) {
	sc := f.spec
	if strings.HasPrefix(name, "__") {
		name = "$" + name[2:]
	}
	for i := len(sc.bound) - 1; i >= 0; i-- {
		if sc.inOld == 0 {
			// reference-like parameter listed in the callee's assigns: its value after the call
			if v, ok := sc.bound[i]["$post:"+name]; ok {
				return v, true
			}
		}
		if v, ok := sc.bound[i][name]; ok {
			return v, true
		}
	}
	if name == "result" && len(sc.results) >= 1 {
		return sc.results[0], true
	}
	if len(name) >= 2 && name[0] == 'r' && name[1] >= '0' && name[1] <= '9' {
		var k int
		if _, err := fmt.Sscanf(name, "r%d", &k); err == nil && k < len(sc.results) {
			return sc.results[k], true
		}
	}
	for i, rn := range sc.resNames {
		if rn == name && rn != "" && rn != "_" && i < len(sc.results) {
			return sc.results[i], true
		}
	}
	if v, ok := env.names[name]; ok {
		return v, true
	}
	if v, ok := env.names["$g:"+name]; ok {
		return v, true
	}
	if !sc.nolocals && sc.pos != token.NoPos {
		// Go scoping first: the declaration visible at the clause's program point
		if inner := f.Pkg.Types.Scope().Innermost(sc.pos); inner != nil {
			if _, o := inner.LookupParent(name, sc.pos); o != nil {
				if v, ok := env.vars[o]; ok {
					return v, true
				}
				if vo, isVar := o.(*types.Var); isVar && !vo.IsField() && o.Parent() != f.Pkg.Types.Scope() && o.Pos() < sc.pos && f.isParamOfAny(o) {
					// a parameter whose binding was dropped at a join (bound to different function literals on the
					// two branches): an unconstrained value of its type, as the code itself would read it
					return f.objVal(o, env), true
				}
			}
		}
	}
	if !sc.nolocals && sc.pos != token.NoPos && f.C != nil && len(f.C.Alias[name]) > 0 {
		// names.go: the recorded local was renamed in this scope while its name lives on in another one
		if inner := f.Pkg.Types.Scope().Innermost(sc.pos); inner != nil {
			var best types.Object
			for _, alt := range f.C.Alias[name] {
				if strings.ContainsAny(alt, "$([") {
					// the recorded loop variable read through the loop (ranged expression at the iteration ghost)
					if e, err := parseSpec(alt); err == nil {
						return f.specExpr(e, env), true
					}
					continue
				}
				if at := strings.Index(alt, "@"); at > 0 {
					// a particular declaration (several locals may share the name): it must be in scope here
					var pos int
					fmt.Sscanf(alt[at+1:], "%d", &pos)
					for o := range env.vars {
						if o.Name() == alt[:at] && int(o.Pos()) == pos && o.Parent() != nil && o.Parent().Contains(sc.pos) {
							if best == nil || o.Pos() > best.Pos() {
								best = o
							}
						}
					}
					continue
				}
				if _, o := inner.LookupParent(alt, sc.pos); o != nil {
					if _, ok := env.vars[o]; ok && (best == nil || o.Pos() > best.Pos()) {
						best = o
					}
				}
			}
			if best != nil {
				return env.vars[best], true
			}
		}
	}
	if !sc.nolocals {
		// fallback: a variable of that name declared earlier in the function (e.g. in an if-init whose scope has ended)
		var best types.Object
		for o := range env.vars {
			if o.Name() != name {
				continue
			}
			if sc.scope != nil && (o.Pos() < sc.scope.Pos() || o.Pos() > sc.scope.End()) {
				// allow params/receiver declared in the signature just before the body
				if !f.isParamOf(o, sc.scope) {
					continue
				}
			}
			if sc.pos != token.NoPos && o.Pos() > sc.pos {
				continue
			}
			if best == nil || o.Pos() > best.Pos() {
				best = o
			}
		}
		if best != nil {
			return env.vars[best], true
		}
	}
	// package-level
	pkg := sc.pkg
	if pkg == nil {
		pkg = f.Pkg.Types
	}
	if o := pkg.Scope().Lookup(name); o != nil {
		switch o.(type) {
		case *types.Const, *types.Var:
			return f.objVal(o, env), true
		case *types.Func:
			// a declared function used as a value
			fn := o.(*types.Func)
			return Val{T: f.funcConst(fn.FullName()), Typ: fn.Type()}, true
		}
	}
	if o := types.Universe.Lookup(name); o != nil {
		if c, ok := o.(*types.Const); ok {
			v, ok := f.constVal(c.Val(), c.Type())
			return v, ok
		}
	}
	return Val{}, false
}

func (f *FuncCtx) isParamOf(o types.Object, body ast.Node) bool {
	// params are declared between the func keyword and the body start
	for fr := f.fr; fr != nil; fr = fr.parent {
		if fr.scope == body && fr.sig != nil {
			for i := 0; i < fr.sig.Params().Len(); i++ {
				if fr.sig.Params().At(i) == o {
					return true
				}
			}
			for i := 0; i < fr.sig.Results().Len(); i++ {
				if fr.sig.Results().At(i) == o {
					return true
				}
			}
			if fr.sig.Recv() == o {
				return true
			}
		}
	}
	return false
}

// specPkg resolves an imported package by its local name (for contract expressions).
func (f *FuncCtx) specPkg(name string) *types.Package {
	// import aliases of the package under verification (eth2p0 "github.com/.../phase0")
	for _, file := range f.Pkg.Syntax {
		for _, im := range file.Imports {
			if im.Name != nil && im.Name.Name == name {
				path := strings.Trim(im.Path.Value, "\"")
				for _, imp := range f.Pkg.Types.Imports() {
					if imp.Path() == path {
						return imp
					}
				}
			}
		}
	}
	base := f.Pkg.Types
	if f.spec != nil && f.spec.pkg != nil {
		base = f.spec.pkg
	}
	for _, imp := range base.Imports() {
		if imp.Name() == name {
			return imp
		}
	}
	for _, imp := range f.Pkg.Types.Imports() {
		if imp.Name() == name {
			return imp
		}
	}
	if base.Name() == name {
		return base
	}
	return nil
}

// closureVar exposes a captured variable of a bound closure: uniq.dedup.
func (f *FuncCtx) closureVar(c *Closure, name string, env *Env) (Val, bool) {
	lit, ok := c.Lit.(*ast.FuncLit)
	if !ok {
		return Val{}, false
	}
	var found types.Object
	ast.Inspect(lit.Body, func(n ast.Node) bool {
		if id, ok := n.(*ast.Ident); ok && id.Name == name {
			if o := f.info().ObjectOf(id); o != nil {
				if _, isVar := o.(*types.Var); isVar && (o.Pos() < lit.Pos() || o.Pos() > lit.End()) {
					found = o
				}
			}
		}
		return found == nil
	})
	if found == nil {
		// names.go: the captured variable may have been renamed in the function that builds the closure
		if alt := f.E.renamedCapture(f.Pkg, lit, name); alt != "" && alt != name {
			return f.closureVar(c, alt, env)
		}
		return Val{}, false
	}
	v, ok := env.vars[found]
	return v, ok
}

// specType resolves a Go type expression used in a contract.
func (f *FuncCtx) specType(text string) types.Type {
	text = strings.TrimSpace(text)
	pkg := f.Pkg.Types
	pos := token.NoPos
	if f.PC != nil && f.PC.TypeScope != "" {
		if d := f.E.findDecl(f.Pkg, f.PC.TypeScope); d != nil && d.Body != nil {
			pos = d.Body.Lbrace + 1
		}
	}
	if f.Decl != nil && f.Decl.Body != nil && f.Decl.Type.TypeParams != nil {
		pos = f.Decl.Body.Lbrace + 1
	}
	tv, err := types.Eval(f.Pkg.Fset, pkg, pos, text)
	if err == nil && !tv.IsType() && pos != token.NoPos {
		// inside a generic function a parameter may shadow a type of the same name (provide's bestSelector):
		// type texts in contracts name types, so fall back to the package scope
		if tv2, err2 := types.Eval(f.Pkg.Fset, pkg, token.NoPos, text); err2 == nil && tv2.IsType() {
			tv = tv2
		}
	}
	if err != nil && f.spec != nil && f.spec.pkg != nil && f.spec.pkg != pkg {
		// contract text that belongs to another package (its axioms / callee contracts)
		if tv2, err2 := types.Eval(f.Pkg.Fset, f.spec.pkg, token.NoPos, text); err2 == nil {
			tv, err = tv2, nil
		}
	}
	if err != nil && f.spec != nil && f.spec.pkg != nil && f.spec.pkg != pkg {
		// ... whose package-qualified names live in that package's file scopes
		for _, lp := range f.E.pkgs {
			if lp.Types != f.spec.pkg {
				continue
			}
			for _, file := range lp.Syntax {
				if tv2, err2 := types.Eval(lp.Fset, lp.Types, file.Name.End(), text); err2 == nil {
					tv, err = tv2, nil
					break
				}
			}
		}
	}
	if err != nil {
		// package-qualified names live in file scopes: try each file of the package
		for _, file := range f.Pkg.Syntax {
			if tv2, err2 := types.Eval(f.Pkg.Fset, pkg, file.Name.End(), text); err2 == nil {
				tv, err = tv2, nil
				break
			}
		}
	}
	if err == nil {
		if n, ok := tv.Type.(*types.Named); ok && n.TypeParams().Len() > 0 && n.TypeArgs().Len() == 0 {
			var names []string
			for i := 0; i < n.TypeParams().Len(); i++ {
				names = append(names, n.TypeParams().At(i).Obj().Name())
			}
			if tv2, err2 := types.Eval(f.Pkg.Fset, pkg, pos, text+"["+strings.Join(names, ", ")+"]"); err2 == nil {
				return tv2.Type
			}
		}
	}
	if err != nil {
		// generic type without explicit args: add the type parameters of the scope function
		if pos != token.NoPos {
			if tv2, err2 := types.Eval(f.Pkg.Fset, pkg, pos, text+"[I, V, C]"); err2 == nil {
				return tv2.Type
			}
		}
		f.fail("cannot resolve type %q: %v", text, err)
		return nil
	}
	return tv.Type
}

// specCall handles spec-only call forms. ok=false -> not a spec form.
func (f *FuncCtx) specCall(e *ast.CallExpr, env *Env) ([]Val, bool) {
	id, isId := e.Fun.(*ast.Ident)
	if !isId {
		return nil, false
	}
	sc := f.spec
	argc := len(e.Args)
	switch id.Name {
	case "old":
		if argc != 1 {
			f.fail("old takes one argument")
			return []Val{f.boolVal("true")}, true
		}
		if sc.old == nil {
			return []Val{f.specExpr(e.Args[0], env)}, true
		}
		oe := sc.old.clone()
		// keep bound variables; evaluate in the old state
		sc.inOld++
		r := f.specExpr(e.Args[0], oe)
		sc.inOld--
		return []Val{r}, true
	case "forall", "exists":
		if argc != 4 {
			f.fail("%s(i, lo, hi, body)", id.Name)
			return []Val{f.boolVal("true")}, true
		}
		vn := e.Args[0].(*ast.Ident).Name
		lo := f.coerce(f.specExpr(e.Args[1], env), types.Typ[types.Int])
		hi := f.coerce(f.specExpr(e.Args[2], env), types.Typ[types.Int])
		f.n++
		q := fmt.Sprintf("%s!q%d", vn, f.n)
		sc.bound = append(sc.bound, map[string]Val{vn: {T: q, Typ: types.Typ[types.Int]}})
		body := f.specExpr(e.Args[3], env)
		sc.bound = sc.bound[:len(sc.bound)-1]
		if id.Name == "forall" {
			return []Val{f.boolVal(fmt.Sprintf("(forall ((%s Int)) (=> (and (<= %s %s) (< %s %s)) %s))", q, lo.T, q, q, hi.T, body.T))}, true
		}
		return []Val{f.boolVal(fmt.Sprintf("(exists ((%s Int)) (and (<= %s %s) (< %s %s) %s))", q, lo.T, q, q, hi.T, body.T))}, true
	case "forallk", "existsk":
		if argc != 3 {
			f.fail("%s(k, m, body)", id.Name)
			return []Val{f.boolVal("true")}, true
		}
		vn := e.Args[0].(*ast.Ident).Name
		m := f.specExpr(e.Args[1], env)
		if m.Typ == nil {
			f.fail("%s over untyped %s", id.Name, exprStr(e.Args[1]))
			return []Val{f.boolVal("true")}, true
		}
		mt, ok := m.Typ.Underlying().(*types.Map)
		if !ok {
			f.fail("%s over non-map %s", id.Name, exprStr(e.Args[1]))
			return []Val{f.boolVal("true")}, true
		}
		f.n++
		q := fmt.Sprintf("%s!q%d", vn, f.n)
		sc.bound = append(sc.bound, map[string]Val{vn: {T: q, Typ: mt.Key()}})
		body := f.specExpr(e.Args[2], env)
		sc.bound = sc.bound[:len(sc.bound)-1]
		ks := f.S.SortOf(mt.Key())
		if id.Name == "forallk" {
			return []Val{f.boolVal(fmt.Sprintf("(forall ((%s %s)) (=> (select (m_dom %s) %s) %s))", q, ks, m.T, q, body.T))}, true
		}
		return []Val{f.boolVal(fmt.Sprintf("(exists ((%s %s)) (and (select (m_dom %s) %s) %s))", q, ks, m.T, q, body.T))}, true
	case "all", "any":
		// all(x, T, body): quantification over a whole type
		if argc != 3 {
			f.fail("%s(x, T, body)", id.Name)
			return []Val{f.boolVal("true")}, true
		}
		vn := e.Args[0].(*ast.Ident).Name
		t := f.specType(exprStr(e.Args[1]))
		if t == nil {
			return []Val{f.boolVal("true")}, true
		}
		f.n++
		q := fmt.Sprintf("%s!q%d", vn, f.n)
		sc.bound = append(sc.bound, map[string]Val{vn: {T: q, Typ: t}})
		body := f.specExpr(e.Args[2], env)
		sc.bound = sc.bound[:len(sc.bound)-1]
		var rng []string
		for _, c := range f.typeInv(q, t, 2) {
			if !strings.Contains(c, "forall") {
				rng = append(rng, c)
			}
		}
		guard := "true"
		if len(rng) > 0 {
			guard = "(and " + strings.Join(rng, " ") + ")"
		}
		if id.Name == "all" {
			return []Val{f.boolVal(fmt.Sprintf("(forall ((%s %s)) (=> %s %s))", q, f.S.SortOf(t), guard, body.T))}, true
		}
		return []Val{f.boolVal(fmt.Sprintf("(exists ((%s %s)) (and %s %s))", q, f.S.SortOf(t), guard, body.T))}, true
	case "atentry":
		if sc.loopEntry == nil {
			f.fail("atentry() outside a loop invariant")
			return []Val{f.boolVal("true")}, true
		}
		return []Val{f.specExpr(e.Args[0], sc.loopEntry.clone())}, true
	case "inner":
		// inner(e): names resolved at the real position of the call inside an inlined closure
		// (closure parameters and locals), not at the outermost call site
		if sc.innerPos == token.NoPos {
			return []Val{f.specExpr(e.Args[0], env)}, true
		}
		saved := sc.pos
		sc.pos = sc.innerPos
		v := f.specExpr(e.Args[0], env)
		sc.pos = saved
		return []Val{v}, true
	case "lastarg":
		// lastarg("callee", k): k-th argument of the most recent call to callee
		name := exprStr(e.Args[0])
		if bl, ok := e.Args[0].(*ast.BasicLit); ok && bl.Kind == token.STRING {
			if u, err := strconv.Unquote(bl.Value); err == nil {
				name = u
			}
		}
		var k int
		fmt.Sscanf(exprStr(e.Args[1]), "%d", &k)
		if v, ok := env.names[fmt.Sprintf("lastarg:%s:%d", name, k)]; ok {
			return []Val{v}, true
		}
		f.fail("lastarg(%s, %d): no such call recorded before this point", name, k)
		return []Val{f.boolVal("true")}, true
	case "res":
		// res(i, call): i-th result of a multi-value call
		var k int
		fmt.Sscanf(exprStr(e.Args[0]), "%d", &k)
		vs := f.exprMulti(e.Args[1], env)
		if k >= len(vs) {
			f.fail("res(%d, ...) out of range", k)
			return []Val{f.boolVal("true")}, true
		}
		return []Val{vs[k]}, true
	case "zero":
		t := f.specType(exprStr(e.Args[0]))
		if t == nil {
			return []Val{f.boolVal("true")}, true
		}
		return []Val{{T: f.S.Zero(t), Typ: t}}, true
	case "ptr":
		v := f.specExpr(e.Args[0], env)
		if v.Typ == nil {
			v.Typ = types.Typ[types.Int64]
		}
		return []Val{{T: fmt.Sprintf("(some %s)", v.T), Typ: types.NewPointer(v.Typ)}}, true
	case "has":
		if argc != 2 {
			f.fail("has(m, k)")
			return []Val{f.boolVal("true")}, true
		}
		m := f.specExpr(e.Args[0], env)
		if m.Typ == nil {
			f.fail("has over untyped %s", exprStr(e.Args[0]))
			return []Val{f.boolVal("true")}, true
		}
		mt, ok := m.Typ.Underlying().(*types.Map)
		if !ok {
			f.fail("has over non-map")
			return []Val{f.boolVal("true")}, true
		}
		k := f.coerce(f.specExpr(e.Args[1], env), mt.Key())
		return []Val{f.boolVal(f.mapHas(m, k))}, true
	case "ite":
		if argc != 3 {
			f.fail("ite(c, a, b)")
			return []Val{f.boolVal("true")}, true
		}
		c := f.specExpr(e.Args[0], env)
		a := f.specExpr(e.Args[1], env)
		b := f.specExpr(e.Args[2], env)
		if a.Typ == nil {
			a = f.coerce(a, b.Typ)
		}
		b = f.coerce(b, a.Typ)
		return []Val{{T: fmt.Sprintf("(ite %s %s %s)", c.T, a.T, b.T), Typ: a.Typ, S: a.S}}, true
	case "ncalls":
		if argc != 1 {
			f.fail("ncalls(callee)")
			return []Val{{T: "0", Typ: types.Typ[types.Int]}}, true
		}
		key := "calls:" + exprStr(e.Args[0])
		if bl, ok := e.Args[0].(*ast.BasicLit); ok && bl.Kind == token.STRING {
			if u, err := strconv.Unquote(bl.Value); err == nil {
				key = "calls:" + u
			}
		}
		if v, ok := env.names[key]; ok {
			return []Val{v}, true
		}
		return []Val{{T: "0", Typ: types.Typ[types.Int]}}, true
	case "isnil":
		v := f.specExpr(e.Args[0], env)
		return []Val{f.boolVal(f.eq(v, Val{T: nilMarker}))}, true
	case "seqeq":
		// seqeq(a, b): same length and same elements
		a := f.specExpr(e.Args[0], env)
		b := f.specExpr(e.Args[1], env)
		f.n++
		q := fmt.Sprintf("i!q%d", f.n)
		return []Val{f.boolVal(fmt.Sprintf("(and (= (s_len %s) (s_len %s)) (forall ((%s Int)) (=> (and (<= 0 %s) (< %s (s_len %s))) (= (select (s_arr %s) %s) (select (s_arr %s) %s)))))", a.T, b.T, q, q, q, a.T, a.T, q, b.T, q))}, true
	case "mapeq":
		a := f.specExpr(e.Args[0], env)
		b := f.specExpr(e.Args[1], env)
		mt, ok := a.Typ.Underlying().(*types.Map)
		if !ok {
			f.fail("mapeq over non-map")
			return []Val{f.boolVal("true")}, true
		}
		f.n++
		q := fmt.Sprintf("k!q%d", f.n)
		ks := f.S.SortOf(mt.Key())
		z := f.S.Zero(mt.Elem())
		return []Val{f.boolVal(fmt.Sprintf("(and (= (m_dom %s) (m_dom %s)) (= (m_card %s) (m_card %s)) (forall ((%s %s)) (=> (select (m_dom %s) %s) (= (select (m_val %s) %s) (select (m_val %s) %s)))))", a.T, b.T, a.T, b.T, q, ks, a.T, q, a.T, q, b.T, q)), {T: z}}[:1], true
	}
	// spec functions
	if sf := f.findSpec(id.Name); sf != nil {
		return []Val{f.callSpec(sf.sf, sf.pc, e, env)}, true
	}
	return nil, false
}

type specRef struct {
	sf *SpecFunc
	pc *PkgContracts
}

func (f *FuncCtx) findSpec(name string) *specRef {
	var pcs []*PkgContracts
	if f.spec != nil && f.spec.pcs != nil {
		pcs = append(pcs, f.spec.pcs)
	}
	if f.PC != nil {
		pcs = append(pcs, f.PC)
	}
	for _, pc := range pcs {
		for _, s := range pc.Specs {
			if s.Name == name {
				return &specRef{s, pc}
			}
		}
	}
	return nil
}

// callSpec declares (once) and applies a spec function.
func (f *FuncCtx) callSpec(sf *SpecFunc, pc *PkgContracts, e *ast.CallExpr, env *Env) Val {
	fn := "spec." + sf.Name
	var ptypes []types.Type
	for _, p := range sf.Params {
		ptypes = append(ptypes, f.specType(p.Type))
	}
	rt := f.specType(sf.Ret)
	if rt == nil {
		rt = types.Typ[types.Bool]
	}
	for _, t := range ptypes {
		if t == nil {
			return f.boolVal("true")
		}
	}
	rec := sf.Body != "" && strings.Contains(sf.Body, sf.Name+"(")
	if sf.Body != "" && !rec && !sf.Opaque {
		// non-recursive spec functions are macros: expanded at the use site with the parameters bound to the
		// arguments and evaluated in the current state (so they may read the heap, old(...) etc.)
		if len(e.Args) != len(sf.Params) {
			f.fail("spec %s: want %d args", sf.Name, len(sf.Params))
			return f.boolVal("true")
		}
		if f.macroDepth > 12 {
			f.fail("spec %s: macro expansion too deep", sf.Name)
			return f.boolVal("true")
		}
		bound := map[string]Val{}
		for i, a := range e.Args {
			bound[sf.Params[i].Name] = f.coerce(f.specExpr(a, env), ptypes[i])
		}
		be, err := parseSpec(sf.Body)
		if err != nil {
			f.fail("spec %s: %v", sf.Name, err)
			return f.boolVal("true")
		}
		saved := f.spec
		nsc := *saved
		nsc.bound = append(append([]map[string]Val{}, saved.bound...), bound)
		nsc.pcs = pc
		nsc.pkg = f.specPkgOf(pc)
		nsc.nolocals = true
		f.spec = &nsc
		f.macroDepth++
		body := f.coerce(f.specExpr(be, env), rt)
		f.macroDepth--
		f.spec = saved
		return body
	}
	if !f.specDone[fn] {
		f.specDone[fn] = true
		var ps, psorts []string
		bound := map[string]Val{}
		for i, p := range sf.Params {
			n := fmt.Sprintf("%s!p", p.Name)
			ps = append(ps, fmt.Sprintf("(%s %s)", n, f.S.SortOf(ptypes[i])))
			psorts = append(psorts, f.S.SortOf(ptypes[i]))
			bound[p.Name] = Val{T: n, Typ: ptypes[i]}
		}
		if sf.Body == "" {
			f.S.decls = append(f.S.decls, fmt.Sprintf("(declare-fun %s (%s) %s)", fn, strings.Join(psorts, " "), f.S.SortOf(rt)))
		} else {
			be, err := parseSpec(sf.Body)
			if err != nil {
				f.fail("spec %s: %v", sf.Name, err)
				return f.boolVal("true")
			}
			saved := f.spec
			f.spec = &specCtx{bound: []map[string]Val{bound}, pcs: pc, nolocals: true, pkg: f.specPkgOf(pc)}
			empty := &Env{vars: map[types.Object]Val{}, names: map[string]Val{}, heap: map[string]string{}, pc: "true"}
			f.specBusy[fn] = true
			f.noHeap++
			body := f.specExpr(be, empty)
			f.noHeap--
			body = f.coerce(body, rt)
			f.spec = saved
			if sf.Opaque {
				app := fn
				if len(ps) > 0 {
					var names []string
					for _, p := range sf.Params {
						names = append(names, p.Name+"!p")
					}
					app = fmt.Sprintf("(%s %s)", fn, strings.Join(names, " "))
				}
				f.S.decls = append(f.S.decls, fmt.Sprintf("(declare-fun %s (%s) %s)", fn, strings.Join(psorts, " "), f.S.SortOf(rt)))
				if len(ps) > 0 {
					f.S.decls = append(f.S.decls, fmt.Sprintf("(assert (forall (%s) (! (= %s %s) :pattern (%s))))", strings.Join(ps, " "), app, body.T, app))
				} else {
					f.S.decls = append(f.S.decls, fmt.Sprintf("(assert (= %s %s))", app, body.T))
				}
			} else {
			f.S.decls = append(f.S.decls, fmt.Sprintf("(define-fun-rec %s (%s) %s %s)", fn, strings.Join(ps, " "), f.S.SortOf(rt), body.T))
			}
		}
	}
	var args []string
	if len(e.Args) != len(sf.Params) {
		f.fail("spec %s: want %d args", sf.Name, len(sf.Params))
		return f.boolVal("true")
	}
	for i, a := range e.Args {
		v := f.coerce(f.specExpr(a, env), ptypes[i])
		args = append(args, v.T)
	}
	if len(args) == 0 {
		return Val{T: fn, Typ: rt}
	}
	return Val{T: fmt.Sprintf("(%s %s)", fn, strings.Join(args, " ")), Typ: rt}
}

func (f *FuncCtx) specPkgOf(pc *PkgContracts) *types.Package {
	if pc == nil || pc == f.PC {
		return f.Pkg.Types
	}
	if p := f.E.pkgByDir(pc.Dir); p != nil {
		return p.Types
	}
	return f.Pkg.Types
}

// isParamOfAny: is o a parameter (or receiver) of the function being verified or of an enclosing frame?
func (f *FuncCtx) isParamOfAny(o types.Object) bool {
	for fr := f.fr; fr != nil; fr = fr.parent {
		if fr.sig == nil {
			continue
		}
		for i := 0; i < fr.sig.Params().Len(); i++ {
			if fr.sig.Params().At(i) == o {
				return true
			}
		}
		if fr.sig.Recv() == o {
			return true
		}
	}
	return false
}
