package main

import (
	"context"
	"fmt"
	"os"
	"os/exec"
	"path/filepath"
	"strings"
	"time"
)

// runBounded runs a bounded stand-in command (labelled bounded, never counted as proved).
func runBounded(bc BoundedCfg, prop, root, tier string, seed int, replayDir, repo string) map[string]interface{} {
	t0 := time.Now()
	ctx, cancel := context.WithTimeout(context.Background(), 20*time.Minute)
	defer cancel()
	cmd := exec.CommandContext(ctx, "bash", "-c", bc.Cmd)
	cmd.Dir = root
	cmd.Env = append(os.Environ(), fmt.Sprintf("VERIF_SEED=%d", seed), "VERIF_TIER="+tier, "VERIF_PROP="+prop, "VERIF_REPLAY_DIR="+replayDir, "VERIF_REPO="+repo, "VERIF_ROOT="+root)
	out, err := cmd.CombinedOutput()
	res := map[string]interface{}{"name": bc.Name, "cmd": bc.Cmd, "label": "bounded", "wall_s": time.Since(t0).Seconds(), "ok": err == nil}
	s := string(out)
	// the command reports its own coverage as lines "BOUNDED key=value"
	for _, l := range strings.Split(s, "\n") {
		if strings.HasPrefix(l, "KNOWN-FINDING") {
			fmt.Println(l)
		}
		if strings.HasPrefix(l, "BOUNDED ") {
			for _, kv := range strings.Fields(l[8:]) {
				if i := strings.Index(kv, "="); i > 0 {
					res[kv[:i]] = kv[i+1:]
				}
			}
		}
	}
	if err != nil {
		rp := filepath.Join(replayDir, "bounded-"+sanitize(bc.Name)+".txt")
		if len(s) > 100000 {
			s = s[len(s)-100000:]
		}
		_ = os.WriteFile(rp, []byte(s), 0o644)
		res["replay"] = rp
	}
	return res
}
