package main

import (
	"fmt"
	"go/ast"
	"go/token"
	"go/types"
	"sort"
	"strings"
)

// block executes a statement list; returns the fall-through state.
func (f *FuncCtx) block(list []ast.Stmt, env *Env, fl *flow) *Env {
	for _, s := range list {
		if env.dead {
			return env
		}
		env = f.stmt(s, env, fl)
	}
	return env
}

func deadEnv() *Env {
	return &Env{vars: map[types.Object]Val{}, names: map[string]Val{}, heap: map[string]string{}, pc: "false", dead: true}
}

func (f *FuncCtx) stmt(s ast.Stmt, env *Env, fl *flow) *Env {
	switch s := s.(type) {
	case *ast.BlockStmt:
		return f.block(s.List, env, fl)
	case *ast.ExprStmt:
		f.exprMulti(s.X, env)
		f.afterStmt(s, env)
		return env
	case *ast.AssignStmt:
		f.assignStmt(s, env)
		f.afterStmt(s, env)
		return env
	case *ast.DeclStmt:
		gd, ok := s.Decl.(*ast.GenDecl)
		if !ok {
			return env
		}
		for _, sp := range gd.Specs {
			vs, ok := sp.(*ast.ValueSpec)
			if !ok {
				continue
			}
			if len(vs.Values) == 1 && len(vs.Names) > 1 {
				vals := f.exprMulti(vs.Values[0], env)
				for i, nm := range vs.Names {
					if o := f.info().Defs[nm]; o != nil && i < len(vals) {
						env.vars[o] = f.name(f.coerce(vals[i], o.Type()), nm.Name)
					}
				}
				continue
			}
			for i, nm := range vs.Names {
				o := f.info().Defs[nm]
				if o == nil {
					continue
				}
				if i < len(vs.Values) {
					v := f.expr(vs.Values[i], env)
					if v.Clo != nil {
						v.Clo.Name = nm.Name
						env.vars[o] = v
					} else {
						env.vars[o] = f.name(f.coerce(v, o.Type()), nm.Name)
					}
				} else {
					env.vars[o] = Val{T: f.S.Zero(o.Type()), Typ: o.Type()}
				}
			}
		}
		return env
	case *ast.IncDecStmt:
		x := f.expr(s.X, env)
		one := f.coerce(Val{T: f.intLit(bigOne, x.Typ)}, x.Typ)
		op := token.ADD
		if s.Tok == token.DEC {
			op = token.SUB
		}
		t, _ := f.arith(op, x, one, x.Typ)
		f.assign(s.X, Val{T: t, Typ: x.Typ}, env)
		return env
	case *ast.IfStmt:
		if s.Init != nil {
			env = f.stmt(s.Init, env, fl)
		}
		c := f.expr(s.Cond, env)
		c = f.name(c, "c")
		et := env.clone()
		f.assume(et, c.T)
		ee := env.clone()
		f.assume(ee, fmt.Sprintf("(not %s)", c.T))
		et = f.block(s.Body.List, et, fl)
		if s.Else != nil {
			ee = f.stmt(s.Else, ee, fl)
		}
		return f.merge([]*Env{et, ee})
	case *ast.ReturnStmt:
		f.doReturn(s.Results, env, s)
		return deadEnv()
	case *ast.ForStmt:
		return f.forStmt(s, env, fl, "")
	case *ast.RangeStmt:
		return f.rangeStmt(s, env, fl, "")
	case *ast.LabeledStmt:
		switch in := s.Stmt.(type) {
		case *ast.ForStmt:
			return f.forStmt(in, env, fl, s.Label.Name)
		case *ast.RangeStmt:
			return f.rangeStmt(in, env, fl, s.Label.Name)
		}
		return f.stmt(s.Stmt, env, fl)
	case *ast.BranchStmt:
		switch s.Tok {
		case token.BREAK:
			t := fl
			if s.Label != nil {
				for t != nil && t.label != s.Label.Name {
					t = t.outer
				}
			}
			if t == nil {
				f.fail("break outside loop")
				return deadEnv()
			}
			t.brk = append(t.brk, env)
			return deadEnv()
		case token.CONTINUE:
			t := fl
			for t != nil && (!t.isLoop || (s.Label != nil && t.label != s.Label.Name)) {
				t = t.outer
			}
			if t == nil {
				f.fail("continue outside loop")
				return deadEnv()
			}
			t.cont = append(t.cont, env)
			return deadEnv()
		}
		f.fail("unsupported branch %s", s.Tok)
		return env
	case *ast.SwitchStmt:
		return f.switchStmt(s, env, fl)
	case *ast.TypeSwitchStmt:
		return f.typeSwitchStmt(s, env, fl)
	case *ast.SelectStmt:
		return f.selectStmt(s, env, fl)
	case *ast.DeferStmt:
		f.fr.defers = append(f.fr.defers, s.Call)
		return env
	case *ast.GoStmt:
		f.note("go statement: spawned function not executed in this state (no interleaving model)")
		text := exprStr(ast.Unparen(s.Call.Fun))
		if _, isLit := ast.Unparen(s.Call.Fun).(*ast.FuncLit); isLit {
			text = "func"
		}
		var args []Val
		for _, a := range s.Call.Args {
			args = append(args, f.expr(a, env))
		}
		f.countCall("go "+text, args, s.Call, env)
		return env
	case *ast.SendStmt:
		ch := exprStr(s.Chan)
		v := f.expr(s.Value, env)
		f.countCall("send "+ch, []Val{v}, &ast.CallExpr{Fun: s.Chan, Lparen: s.Pos()}, env)
		f.note("channel send modelled as a ghost event")
		return env
	case *ast.EmptyStmt:
		return env
	}
	f.fail("unsupported statement %T", s)
	return env
}

var bigOne = newBig(1)

func (f *FuncCtx) assignStmt(s *ast.AssignStmt, env *Env) {
	define := s.Tok == token.DEFINE
	if s.Tok != token.ASSIGN && s.Tok != token.DEFINE {
		// op-assign
		x := f.expr(s.Lhs[0], env)
		y := f.coerce(f.expr(s.Rhs[0], env), x.Typ)
		var op token.Token
		switch s.Tok {
		case token.ADD_ASSIGN:
			op = token.ADD
		case token.SUB_ASSIGN:
			op = token.SUB
		case token.MUL_ASSIGN:
			op = token.MUL
		case token.QUO_ASSIGN:
			op = token.QUO
		case token.REM_ASSIGN:
			op = token.REM
		case token.OR_ASSIGN:
			op = token.OR
		case token.AND_ASSIGN:
			op = token.AND
		case token.XOR_ASSIGN:
			op = token.XOR
		case token.SHL_ASSIGN:
			op = token.SHL
		case token.SHR_ASSIGN:
			op = token.SHR
		default:
			f.fail("unsupported assignment op %s", s.Tok)
			return
		}
		if isString(x.Typ) {
			f.S.declare("str_concat", "(declare-fun str_concat (Str Str) Str)")
			f.assign(s.Lhs[0], Val{T: fmt.Sprintf("(str_concat %s %s)", x.T, y.T), Typ: x.Typ}, env)
			return
		}
		t, ok := f.arith(op, x, y, x.Typ)
		if !ok {
			f.fail("unsupported assignment op %s", s.Tok)
			return
		}
		f.assign(s.Lhs[0], Val{T: t, Typ: x.Typ}, env)
		return
	}
	var vals []Val
	if len(s.Rhs) == 1 && len(s.Lhs) > 1 {
		// multi-value: call, map index, type assert, receive
		switch r := ast.Unparen(s.Rhs[0]).(type) {
		case *ast.IndexExpr:
			m := f.expr(r.X, env)
			mt, ok := m.Typ.Underlying().(*types.Map)
			if !ok {
				f.fail("comma-ok index on non-map")
				return
			}
			k := f.coerce(f.expr(r.Index, env), mt.Key())
			vals = []Val{{T: f.mapGet(m, k, mt), Typ: mt.Elem()}, f.boolVal(f.mapHas(m, k))}
		case *ast.UnaryExpr:
			v := f.expr(r, env)
			vals = []Val{v, f.freshVal(types.Typ[types.Bool], "ok")}
		default:
			vals = f.exprMulti(s.Rhs[0], env)
		}
	} else {
		for i, r := range s.Rhs {
			v := f.expr(r, env)
			if v.Clo != nil {
				if id, ok := s.Lhs[i].(*ast.Ident); ok {
					v.Clo.Name = id.Name
				}
			}
			vals = append(vals, v)
		}
	}
	if len(vals) < len(s.Lhs) {
		f.fail("assignment arity mismatch at %s", posStr(f.Pkg.Fset, s.Pos()))
		return
	}
	f.recordAliases(s, env)
	for i, l := range s.Lhs {
		if id, ok := l.(*ast.Ident); ok {
			if id.Name == "_" {
				continue
			}
			if define {
				if o := f.info().Defs[id]; o != nil {
					v := vals[i]
					if v.Clo == nil {
						v = f.name(f.coerce(v, o.Type()), id.Name)
					}
					env.vars[o] = v
					continue
				}
			}
		}
		f.assign(l, vals[i], env)
	}
}

// assign stores v into the lvalue l.
func (f *FuncCtx) assign(l ast.Expr, v Val, env *Env) {
	l = ast.Unparen(l)
	switch l := l.(type) {
	case *ast.Ident:
		if l.Name == "_" {
			return
		}
		o := f.info().ObjectOf(l)
		if o == nil {
			f.fail("assign to unresolved %s", l.Name)
			return
		}
		if v.Clo == nil {
			v = f.name(f.coerce(v, o.Type()), l.Name)
		}
		if vr, ok := o.(*types.Var); ok && vr.Pkg() != nil && vr.Parent() == vr.Pkg().Scope() {
			f.globals[o] = v
			f.note("assignment to package-level variable " + l.Name)
			return
		}
		env.vars[o] = v
	case *ast.SelectorExpr:
		x := f.expr(l.X, env)
		if x.Typ == nil {
			f.fail("assign through untyped %s", exprStr(l))
			return
		}
		obj, path, _ := types.LookupFieldOrMethod(x.Typ, true, f.Pkg.Types, l.Sel.Name)
		fl, ok := obj.(*types.Var)
		if !ok || len(path) != 1 {
			if ok && len(path) > 1 {
				// promoted field: make the embedded hop explicit (a.F = v  ==>  a.Embedded.F = v)
				bt := x.Typ
				if p, isP := bt.Underlying().(*types.Pointer); isP {
					bt = p.Elem()
				}
				if st, isS := bt.Underlying().(*types.Struct); isS && path[0] < st.NumFields() {
					inner := &ast.SelectorExpr{X: l.X, Sel: ast.NewIdent(st.Field(path[0]).Name())}
					f.assign(&ast.SelectorExpr{X: inner, Sel: l.Sel}, v, env)
					return
				}
				f.fail("assignment through embedded field %s unsupported", exprStr(l))
			} else {
				f.fail("assign to non-field %s", exprStr(l))
			}
			return
		}
		v = f.coerce(v, fl.Type())
		if _, el, isPtr := ptrStruct(x.Typ); isPtr {
			h := f.heapName(el, fl)
			hs := f.heapSort[h]
			env.heap[h] = f.define("H_"+fl.Name(), fmt.Sprintf("(Array %s %s)", hs[0], hs[1]), fmt.Sprintf("(store %s %s %s)", f.heapGet(env, h), x.T, v.T))
			return
		}
		if srt, st, isDT := f.S.isDatatypeStruct(x.Typ); isDT {
			var fs []string
			for i := 0; i < st.NumFields(); i++ {
				if st.Field(i) == fl || st.Field(i).Name() == fl.Name() {
					fs = append(fs, v.T)
				} else {
					fs = append(fs, fmt.Sprintf("(%s %s)", f.S.fieldAcc(srt, st.Field(i).Name()), x.T))
				}
			}
			f.assign(l.X, Val{T: fmt.Sprintf("(mk_%s %s)", srt, strings.Join(fs, " ")), Typ: x.Typ}, env)
			return
		}
		// external struct value: functional update (the other fields keep their values)
		nv := f.freshVal(x.Typ, "upd")
		f.emit(fmt.Sprintf("(assert (= %s %s))", f.extField(nv, fl).T, v.T))
		if st, ok := x.Typ.Underlying().(*types.Struct); ok {
			for i := 0; i < st.NumFields(); i++ {
				if o := st.Field(i); o != fl && o.Name() != fl.Name() {
					f.emit(fmt.Sprintf("(assert (= %s %s))", f.extField(nv, o).T, f.extField(x, o).T))
				}
			}
		}
		f.assign(l.X, nv, env)
	case *ast.IndexExpr:
		x := f.expr(l.X, env)
		if x.Typ == nil {
			f.fail("index-assign on untyped")
			return
		}
		x = f.name(x, "base")
		switch u := x.Typ.Underlying().(type) {
		case *types.Map:
			k := f.coerce(f.expr(l.Index, env), u.Key())
			v = f.coerce(v, u.Elem())
			nm := Val{T: f.mapStore(x, k, v), Typ: x.Typ}
			f.assign(l.X, nm, env)
			// maps are references: a local that aliases a stored map writes through to it
			if id, ok := ast.Unparen(l.X).(*ast.Ident); ok && f.aliasDepth == 0 {
				if o := f.info().ObjectOf(id); o != nil {
					if tgt, ok := f.aliases[o]; ok {
						f.aliasDepth++
						f.assign(tgt, env.vars[o], env)
						f.aliasDepth--
					}
				}
			}
		case *types.Slice:
			i := f.coerce(f.expr(l.Index, env), types.Typ[types.Int])
			v = f.coerce(v, u.Elem())
			f.safety("index", env, fmt.Sprintf("(and (<= 0 %s) (< %s (s_len %s)))", i.T, i.T, x.T), l)
			f.assign(l.X, Val{T: fmt.Sprintf("(mk_slice (store (s_arr %s) %s %s) (s_len %s) false)", x.T, i.T, v.T, x.T), Typ: x.Typ}, env)
		case *types.Array:
			i := f.coerce(f.expr(l.Index, env), types.Typ[types.Int])
			v = f.coerce(v, u.Elem())
			if _, ok := byteArray(u); ok {
				srt := f.S.SortOf(x.Typ)
				nv := f.freshVal(x.Typ, "barr")
				f.emit(fmt.Sprintf("(assert (forall ((i!q Int)) (! (= (at_%s %s i!q) (ite (= i!q %s) %s (at_%s %s i!q))) :pattern ((at_%s %s i!q)))))", srt, nv.T, i.T, v.T, srt, x.T, srt, nv.T))
				f.assign(l.X, nv, env)
				break
			}
			f.assign(l.X, Val{T: fmt.Sprintf("(store %s %s %s)", x.T, i.T, v.T), Typ: x.Typ}, env)
		default:
			f.fail("unsupported index assignment on %s", x.Typ)
		}
	case *ast.StarExpr:
		p := f.expr(l.X, env)
		if st, el, ok := ptrStruct(p.Typ); ok {
			// *p = structValue
			srt, _, isDT := f.S.isDatatypeStruct(el)
			for i := 0; i < st.NumFields(); i++ {
				fl := st.Field(i)
				h := f.heapName(el, fl)
				hs := f.heapSort[h]
				var fv string
				if isDT {
					fv = fmt.Sprintf("(%s %s)", f.S.fieldAcc(srt, fl.Name()), v.T)
				} else {
					fv = f.extField(v, fl).T
				}
				env.heap[h] = f.define("H_"+fl.Name(), fmt.Sprintf("(Array %s %s)", hs[0], hs[1]), fmt.Sprintf("(store %s %s %s)", f.heapGet(env, h), p.T, fv))
			}
			return
		}
		// pointer to scalar held in a local: update the pointer variable itself (no aliasing model)
		if pt, ok := p.Typ.Underlying().(*types.Pointer); ok {
			f.note("write through scalar pointer modelled as update of the pointer variable only")
			f.assign(l.X, Val{T: fmt.Sprintf("(some %s)", f.coerce(v, pt.Elem()).T), Typ: p.Typ}, env)
			return
		}
		f.fail("unsupported store through %s", exprStr(l))
	default:
		f.fail("unsupported lvalue %T", l)
	}
}

// doReturn records a return state for the current frame.
func (f *FuncCtx) doReturn(results []ast.Expr, env *Env, at ast.Node) {
	fr := f.fr
	sig := fr.sig
	var vals []Val
	if len(results) == 0 {
		for _, o := range fr.results {
			vals = append(vals, env.vars[o])
		}
	} else if len(results) == 1 && sig.Results().Len() > 1 {
		vals = f.exprMulti(results[0], env)
	} else {
		for _, r := range results {
			vals = append(vals, f.expr(r, env))
		}
	}
	if env.dead {
		return
	}
	for i := 0; i < sig.Results().Len() && i < len(vals); i++ {
		rt := sig.Results().At(i).Type()
		v := vals[i]
		if v.Clo == nil {
			v = f.name(f.coerce(v, rt), fmt.Sprintf("ret%d", i))
		}
		env.names[fmt.Sprintf("$ret%d.%d", fr.depth, i)] = v
		if i < len(fr.results) {
			env.vars[fr.results[i]] = v
		}
	}
	fr.rets = append(fr.rets, env)
	fr.retDefers = append(fr.retDefers, len(fr.defers))
}

// runDefers executes deferred calls on each return state (reverse order), ignoring bookkeeping calls.
func (f *FuncCtx) runDefers(fr *frame) {
	for i := len(fr.defers) - 1; i >= 0; i-- {
		c := fr.defers[i]
		text := exprStr(c.Fun)
		if strings.HasSuffix(text, "Unlock") || strings.HasSuffix(text, "RUnlock") || strings.HasSuffix(text, "End") || text == "cancel" || strings.HasSuffix(text, "Done") || strings.HasSuffix(text, "Stop") {
			continue
		}
		if lit, ok := c.Fun.(*ast.FuncLit); ok && callsRecover(lit) {
			f.note("deferred recover() handler not modelled")
			continue
		}
		for j, e := range fr.rets {
			if e.dead {
				continue
			}
			// a return reached before this defer statement was executed does not run it (the walk is in source
			// order, so the count at the time of the return over-approximates the defers registered on its path)
			if j < len(fr.retDefers) && i >= fr.retDefers[j] {
				continue
			}
			saved := f.fr
			f.fr = fr
			f.exprMulti(c, e)
			f.fr = saved
		}
	}
}

func callsRecover(lit *ast.FuncLit) bool {
	found := false
	ast.Inspect(lit.Body, func(n ast.Node) bool {
		if c, ok := n.(*ast.CallExpr); ok {
			if id, ok := c.Fun.(*ast.Ident); ok && id.Name == "recover" {
				found = true
			}
		}
		return !found
	})
	return found
}

func (f *FuncCtx) switchStmt(s *ast.SwitchStmt, env *Env, fl *flow) *Env {
	if s.Init != nil {
		env = f.stmt(s.Init, env, fl)
	}
	var tag *Val
	if s.Tag != nil {
		t := f.name(f.expr(s.Tag, env), "tag")
		tag = &t
	}
	inner := &flow{outer: fl}
	var outs []*Env
	rest := env.clone() // state in which no earlier case matched
	var dflt *ast.CaseClause
	var fallEnv *Env
	for _, cc := range s.Body.List {
		c := cc.(*ast.CaseClause)
		if c.List == nil {
			dflt = c
			continue
		}
		var conds []string
		for _, e := range c.List {
			v := f.expr(e, rest)
			if tag != nil {
				conds = append(conds, f.eq(*tag, v))
			} else {
				conds = append(conds, v.T)
			}
		}
		cond := conds[0]
		if len(conds) > 1 {
			cond = "(or " + strings.Join(conds, " ") + ")"
		}
		cond = f.define("case", "Bool", cond)
		et := rest.clone()
		f.assume(et, cond)
		if fallEnv != nil {
			et = f.merge([]*Env{et, fallEnv})
			fallEnv = nil
		}
		body := c.Body
		ft := false
		if n := len(body); n > 0 {
			if b, ok := body[n-1].(*ast.BranchStmt); ok && b.Tok == token.FALLTHROUGH {
				ft = true
				body = body[:n-1]
			}
		}
		out := f.block(body, et, inner)
		if ft {
			fallEnv = out
		} else {
			outs = append(outs, out)
		}
		f.assume(rest, fmt.Sprintf("(not %s)", cond))
	}
	if dflt != nil {
		if fallEnv != nil {
			rest = f.merge([]*Env{rest, fallEnv})
		}
		outs = append(outs, f.block(dflt.Body, rest, inner))
	} else {
		outs = append(outs, rest)
	}
	outs = append(outs, inner.brk...)
	return f.merge(outs)
}

func (f *FuncCtx) typeSwitchStmt(s *ast.TypeSwitchStmt, env *Env, fl *flow) *Env {
	if s.Init != nil {
		env = f.stmt(s.Init, env, fl)
	}
	var x Val
	var bindName *ast.Ident
	switch a := s.Assign.(type) {
	case *ast.AssignStmt:
		x = f.expr(a.Rhs[0].(*ast.TypeAssertExpr).X, env)
		bindName = a.Lhs[0].(*ast.Ident)
	case *ast.ExprStmt:
		x = f.expr(a.X.(*ast.TypeAssertExpr).X, env)
	}
	_ = bindName
	inner := &flow{outer: fl}
	var outs []*Env
	rest := env.clone()
	var dflt *ast.CaseClause
	for _, cc := range s.Body.List {
		c := cc.(*ast.CaseClause)
		if c.List == nil {
			dflt = c
			continue
		}
		var conds []string
		var single types.Type
		for _, e := range c.List {
			if id, ok := e.(*ast.Ident); ok && id.Name == "nil" {
				conds = append(conds, f.eq(x, Val{T: nilMarker}))
				continue
			}
			t := f.typeOf(e)
			if len(c.List) == 1 {
				single = t
			}
			conds = append(conds, f.isType(x, t).T)
		}
		cond := conds[0]
		if len(conds) > 1 {
			cond = "(or " + strings.Join(conds, " ") + ")"
		}
		cond = f.define("tcase", "Bool", cond)
		et := rest.clone()
		f.assume(et, cond)
		if o := f.info().Implicits[c]; o != nil {
			if single != nil {
				et.vars[o] = f.typeAssert(x, single)
			} else {
				et.vars[o] = x
			}
		}
		outs = append(outs, f.block(c.Body, et, inner))
		f.assume(rest, fmt.Sprintf("(not %s)", cond))
	}
	if dflt != nil {
		if o := f.info().Implicits[dflt]; o != nil {
			rest.vars[o] = x
		}
		outs = append(outs, f.block(dflt.Body, rest, inner))
	} else {
		outs = append(outs, rest)
	}
	outs = append(outs, inner.brk...)
	return f.merge(outs)
}

// selectStmt: nondeterministic choice between the cases.
func (f *FuncCtx) selectStmt(s *ast.SelectStmt, env *Env, fl *flow) *Env {
	f.note("select modelled as nondeterministic choice; channel receive = havoc, send = ghost event")
	inner := &flow{outer: fl}
	var outs []*Env
	for _, cc := range s.Body.List {
		c := cc.(*ast.CommClause)
		et := env.clone()
		g := f.fresh("sel", "Bool")
		f.assume(et, g)
		if c.Comm != nil {
			// a send that is a case of a select with a default clause never blocks (contracts: `nonblocking`)
			hasDefault := false
			for _, oc := range s.Body.List {
				if oc.(*ast.CommClause).Comm == nil {
					hasDefault = true
				}
			}
			savedNB := f.sendNonBlocking
			f.sendNonBlocking = hasDefault
			defer func(v bool) { f.sendNonBlocking = v }(savedNB)
			// a receive from a nil channel is never ready
			if ch := recvChan(c.Comm); ch != nil {
				if id, ok := ast.Unparen(ch).(*ast.Ident); ok {
					if v, ok := et.vars[f.info().ObjectOf(id)]; ok && v.Typ != nil {
						if _, isCh := v.Typ.Underlying().(*types.Chan); isCh {
							f.assume(et, fmt.Sprintf("(not (= %s nil_Chan))", v.T))
						}
					}
				}
			}
			et = f.stmt(c.Comm, et, inner)
		}
		outs = append(outs, f.block(c.Body, et, inner))
	}
	outs = append(outs, inner.brk...)
	return f.merge(outs)
}

// ---- loops ----

type modSet struct {
	objs  map[types.Object]bool
	heaps map[string]bool
	all   bool
	bases map[string]map[types.Object]bool // heap -> variables holding the written references
	anyB  map[string]bool                  // heap written through an arbitrary expression
}

func (ms *modSet) heapAt(h string, base ast.Expr, f *FuncCtx) {
	ms.heaps[h] = true
	if ms.bases == nil {
		ms.bases = map[string]map[types.Object]bool{}
		ms.anyB = map[string]bool{}
	}
	if id, ok := ast.Unparen(base).(*ast.Ident); ok {
		if o := f.info().ObjectOf(id); o != nil {
			if ms.bases[h] == nil {
				ms.bases[h] = map[types.Object]bool{}
			}
			ms.bases[h][o] = true
			return
		}
	}
	ms.anyB[h] = true
}

func (f *FuncCtx) modsOf(nodes []ast.Node, env *Env, depth int, ms *modSet) {
	var lhs func(e ast.Expr)
	lhs = func(e ast.Expr) {
		e = ast.Unparen(e)
		switch e := e.(type) {
		case *ast.Ident:
			if o := f.info().ObjectOf(e); o != nil {
				ms.objs[o] = true
			}
		case *ast.SelectorExpr:
			if t := f.typeOf(e.X); t != nil {
				if _, el, ok := ptrStruct(t); ok {
					if obj, _, _ := types.LookupFieldOrMethod(t, true, f.Pkg.Types, e.Sel.Name); obj != nil {
						if fl, ok := obj.(*types.Var); ok {
							ms.heapAt(f.heapName(el, fl), e.X, f)
							return
						}
					}
				}
			}
			lhs(e.X)
		case *ast.IndexExpr:
			lhs(e.X)
		case *ast.StarExpr:
			lhs(e.X)
			if t := f.typeOf(e.X); t != nil {
				if st, el, ok := ptrStruct(t); ok {
					for i := 0; i < st.NumFields(); i++ {
						ms.heapAt(f.heapName(el, st.Field(i)), e.X, f)
					}
				}
			}
		case *ast.SliceExpr:
			lhs(e.X)
		}
	}
	for _, nd := range nodes {
		if nd == nil {
			continue
		}
		ast.Inspect(nd, func(n ast.Node) bool {
			switch n := n.(type) {
			case *ast.AssignStmt:
				for _, l := range n.Lhs {
					lhs(l)
				}
			case *ast.IncDecStmt:
				lhs(n.X)
			case *ast.RangeStmt:
				if n.Key != nil {
					lhs(n.Key)
				}
				if n.Value != nil {
					lhs(n.Value)
				}
			case *ast.CallExpr:
				fun := ast.Unparen(n.Fun)
				if ix, ok := fun.(*ast.IndexExpr); ok {
					fun = ix.X
				}
				if ix, ok := fun.(*ast.IndexListExpr); ok {
					fun = ix.X
				}
				if id, ok := fun.(*ast.Ident); ok {
					switch o := f.info().ObjectOf(id).(type) {
					case *types.Builtin:
						if (o.Name() == "delete" || o.Name() == "copy" || o.Name() == "clear") && len(n.Args) > 0 {
							lhs(n.Args[0])
						}
					case *types.Var:
						if v, ok := env.vars[o]; ok && v.Clo != nil && depth < 6 {
							if lit, ok := v.Clo.Lit.(*ast.FuncLit); ok {
								f.modsOf([]ast.Node{lit.Body}, env, depth+1, ms)
							}
						}
					case *types.Func:
						f.modsOfFunc(o, n, env, depth, ms)
					}
				} else if sel, ok := fun.(*ast.SelectorExpr); ok {
					if o, ok := f.info().ObjectOf(sel.Sel).(*types.Func); ok {
						f.modsOfFunc(o, n, env, depth, ms)
					}
				}
			case *ast.FuncLit:
				// a literal defined inside the loop may be invoked there
				return true
			}
			return true
		})
	}
}

func (f *FuncCtx) modsOfFunc(o *types.Func, call *ast.CallExpr, env *Env, depth int, ms *modSet) {
	o = o.Origin()
	pc, c := f.E.contractFor(o, f.Pkg)
	_ = pc
	if c != nil && !c.Inline {
		for _, a := range c.Assigns {
			if i := strings.LastIndex(a, "."); i >= 0 {
				// receiver field: find heap by field name on the receiver type
				sig := o.Type().(*types.Signature)
				var bt types.Type
				var bexpr ast.Expr
				base := a[:i]
				if r := sig.Recv(); r != nil && r.Name() == base {
					bt = r.Type()
					if sel, ok := ast.Unparen(call.Fun).(*ast.SelectorExpr); ok {
						bexpr = sel.X
					}
				}
				for k := 0; k < sig.Params().Len(); k++ {
					if sig.Params().At(k).Name() == base {
						bt = sig.Params().At(k).Type()
						if k < len(call.Args) {
							bexpr = call.Args[k]
						}
					}
				}
				if bt != nil {
					if _, el, ok := ptrStruct(bt); ok {
						if obj, _ := lookupFieldAnyPkg(bt, a[i+1:]); obj != nil {
							h := f.heapName(el, obj.(*types.Var))
							if bexpr != nil {
								ms.heapAt(h, bexpr, f)
							} else {
								ms.heapAt(h, &ast.BasicLit{}, f)
							}
							continue
						}
					}
				}
				// assigns through a callee-local object: invisible here
				continue
			} else {
				// by-reference parameter
				sig := o.Type().(*types.Signature)
				for k := 0; k < sig.Params().Len(); k++ {
					if sig.Params().At(k).Name() == a && k < len(call.Args) {
						root := call.Args[k]
						for {
							switch r := ast.Unparen(root).(type) {
							case *ast.IndexExpr:
								root = r.X
								continue
							case *ast.SelectorExpr:
								if t := f.typeOf(r.X); t != nil {
									if _, el, ok := ptrStruct(t); ok {
										if obj, _ := lookupFieldAnyPkg(t, r.Sel.Name); obj != nil {
											ms.heapAt(f.heapName(el, obj.(*types.Var)), r.X, f)
										}
									}
								}
								root = r.X
								continue
							case *ast.Ident:
								if ob := f.info().ObjectOf(r); ob != nil {
									ms.objs[ob] = true
								}
							}
							break
						}
					}
				}
			}
		}
		return
	}
	if decl := f.E.declOf(o); decl != nil && decl.Body != nil && depth < 4 && f.E.pkgOf(o) == f.Pkg {
		f.modsOf([]ast.Node{decl.Body}, env, depth+1, ms)
	}
}

// loopCommon implements the invariant-based loop rule.
// cond: returns the loop condition term evaluated in a state ("" = true); pre-iteration binding via bind; post via post.
func (f *FuncCtx) loopCommon(label string, env *Env, fl *flow, nodes []ast.Node, scopePos token.Pos,
	ghost map[string]Val, implicit func(e *Env) []string,
	cond func(e *Env) string, bind func(e *Env), body *ast.BlockStmt, post func(e *Env)) *Env {

	fr := f.fr
	fr.loopOrd++
	ord := fr.loopOrd
	var invs []Clause
	var c *FuncContract = fr.c
	if c == nil && fr.parent != nil {
		// closures share the numbering and contract of the enclosing declared function
		for p := fr.parent; p != nil; p = p.parent {
			if p.c != nil {
				c = p.c
				break
			}
		}
	}
	prefix := fmt.Sprintf("loop%d", ord)
	if fr.depth > 0 {
		prefix = fmt.Sprintf("%s.loop%d", fr.name, ord)
	}
	if c != nil {
		invs = c.LoopInv[ord]
	}
	if c == nil || (len(invs) == 0 && !hasKey(c.LoopInv, ord)) {
		// no invariant given: everything after this loop is undecided (never silently skipped)
		f.fail("loop %d in %s has no invariant", ord, fr.name)
		return env
	}
	loopEntry := env.clone()
	sc := func(e *Env) *specCtx {
		return &specCtx{old: f.entry, pos: scopePos, scope: fr.scope, pcs: fr.pc, results: nil, bound: []map[string]Val{fr.bound}, loopEntry: loopEntry}
	}
	// ghost index etc. initial values
	for k, v := range ghost {
		env.names[k] = v
	}
	// init obligations
	for k, cl := range invs {
		g := f.evalClause(cl, env, sc(env))
		f.obligeIn(fmt.Sprintf("%s.init.%d", prefix, k+1), "loop.init", env, g, cl.Text, fmt.Sprintf("%s:%d", shortPath(cl.File), cl.Line))
	}
	// havoc modified state
	ms := &modSet{objs: map[types.Object]bool{}, heaps: map[string]bool{}}
	f.modsOf(nodes, env, 0, ms)
	// a call in the loop may run an escaped function literal of this function: what such literals assign is modified
	if caps := f.escapedCaptures(); len(caps) > 0 {
		hasCall := false
		for _, nd := range nodes {
			if nd == nil {
				continue
			}
			ast.Inspect(nd, func(m ast.Node) bool {
				if _, ok := m.(*ast.CallExpr); ok {
					hasCall = true
				}
				return !hasCall
			})
		}
		if hasCall {
			for _, cv := range caps {
				ms.objs[cv.obj] = true
			}
		}
	}
	if c != nil {
		for _, extra := range c.LoopMod[ord] {
			for o := range env.vars {
				if o.Name() == extra {
					ms.objs[o] = true
				}
			}
		}
	}
	head := env.clone()
	var objs []types.Object
	for o := range ms.objs {
		objs = append(objs, o)
	}
	sort.Slice(objs, func(i, j int) bool {
		if a, b := f.posKey(objs[i]), f.posKey(objs[j]); a != b {
			return a < b
		}
		return objs[i].Name() < objs[j].Name()
	})
	for _, o := range objs {
		if v, ok := head.vars[o]; ok && v.Clo == nil {
			head.vars[o] = f.freshVal(o.Type(), o.Name())
		}
	}
	var hs []string
	for h := range ms.heaps {
		hs = append(hs, h)
	}
	sort.Strings(hs)
	for _, h := range hs {
		srt := f.heapSort[h]
		hsort := fmt.Sprintf("(Array %s %s)", srt[0], srt[1])
		exact := !ms.anyB[h] && len(ms.bases[h]) > 0
		var bvals []string
		if exact {
			for o := range ms.bases[h] {
				v, ok := env.vars[o]
				if !ok || ms.objs[o] || v.Clo != nil {
					exact = false // the base variable itself changes in the loop
					break
				}
				bvals = append(bvals, v.T)
			}
		}
		if !exact {
			head.heap[h] = f.fresh("Hl_"+strings.TrimPrefix(h, "H."), hsort)
			continue
		}
		// only the locations written in the loop are havocked; all other references keep their values
		sort.Strings(bvals)
		cur := f.heapGet(env, h)
		for _, b := range bvals {
			cur = fmt.Sprintf("(store %s %s %s)", cur, b, f.fresh("hl", srt[1]))
		}
		head.heap[h] = f.define("Hl_"+strings.TrimPrefix(h, "H."), hsort, cur)
	}
	gks := sortedKeys(ghost)
	sort.Sort(sort.Reverse(sort.StringSlice(gks))) // fixed order; the loop's own index ($i<n>) before the innermost alias ($i)
	for _, k := range gks {
		v := ghost[k]
		if strings.HasPrefix(k, "$i") || strings.HasPrefix(k, "$n") {
			head.names[k] = Val{T: f.fresh(strings.TrimPrefix(k, "$"), "Int"), Typ: v.Typ}
		}
	}
	for _, k := range sortedKeys(head.names) {
		if strings.HasPrefix(k, "calls:") || strings.HasPrefix(k, "lastarg:") {
			name := strings.TrimPrefix(k, "calls:")
			if strings.HasPrefix(k, "lastarg:") {
				name = strings.TrimPrefix(k, "lastarg:")
				if j := strings.LastIndex(name, ":"); j >= 0 {
					name = name[:j]
				}
			}
			if f.loopCalls(nodes, name, env) {
				v := head.names[k]
				head.names[k] = Val{T: f.fresh("ncalls", f.sortOfVal(v)), Typ: v.Typ, S: v.S}
			}
		}
	}
	for _, k := range sortedKeys(head.names) {
		v := head.names[k]
		if strings.HasPrefix(k, "$g:") && f.loopAssignsGhost(nodes, strings.TrimPrefix(k, "$g:"), env) {
			head.names[k] = f.freshVal(v.Typ, strings.TrimPrefix(k, "$g:"))
		}
	}
	// counters for tracked calls made in the loop but not yet present
	for _, name := range sortedKeys(f.trackCall) {
		if _, ok := head.names["calls:"+name]; !ok && f.loopCalls(nodes, name, env) {
			env.names["calls:"+name] = Val{T: "0", Typ: types.Typ[types.Int]}
			head.names["calls:"+name] = Val{T: f.fresh("ncalls", "Int"), Typ: types.Typ[types.Int]}
		}
	}
	if implicit != nil {
		for _, a := range implicit(head) {
			f.assume(head, a)
		}
	}
	for _, cl := range invs {
		f.assume(head, f.evalClause(cl, head, sc(head)))
	}
	// one iteration
	it := head.clone()
	ct := ""
	if cond != nil {
		ct = cond(it)
	}
	if ct != "" {
		ct = f.define("lc", "Bool", ct)
		f.assume(it, ct)
	}
	if bind != nil {
		bind(it)
	}
	inner := &flow{outer: fl, label: label, isLoop: true}
	retsBefore := len(fr.rets)
	end := f.block(body.List, it, inner)
	if c != nil && len(c.LoopRet[ord]) > 0 {
		// loop N return e: every return statement executed inside the loop body satisfies e (rK = K-th returned value)
		for k, cl := range c.LoopRet[ord] {
			for j := retsBefore; j < len(fr.rets); j++ {
				re := fr.rets[j]
				if re.dead {
					continue
				}
				var results []Val
				for i := 0; i < fr.sig.Results().Len(); i++ {
					if v, ok := re.names[fmt.Sprintf("$ret%d.%d", fr.depth, i)]; ok {
						results = append(results, v)
					} else {
						results = append(results, Val{T: f.S.Zero(fr.sig.Results().At(i).Type()), Typ: fr.sig.Results().At(i).Type()})
					}
				}
				var resNames []string
				for _, o := range fr.results {
					resNames = append(resNames, o.Name())
				}
				rsc := sc(re)
				rsc.results = results
				rsc.resNames = resNames
				g := f.evalClause(cl, re, rsc)
				f.obligeIn(fmt.Sprintf("%s.return#%d.%d", prefix, j-retsBefore+1, k+1), "loop.return", re, g, cl.Text, fmt.Sprintf("%s:%d", shortPath(cl.File), cl.Line))
			}
		}
	}
	if c != nil && len(c.LoopBrk[ord]) > 0 {
		// loop N break e: every break statement that leaves this loop is executed in a state satisfying e
		for k, cl := range c.LoopBrk[ord] {
			for j, be := range inner.brk {
				if be.dead {
					continue
				}
				g := f.evalClause(cl, be, sc(be))
				f.obligeIn(fmt.Sprintf("%s.break#%d.%d", prefix, j+1, k+1), "loop.break", be, g, cl.Text, fmt.Sprintf("%s:%d", shortPath(cl.File), cl.Line))
			}
		}
	}
	back := f.merge(append([]*Env{end}, inner.cont...))
	if !back.dead {
		if post != nil {
			post(back)
		}
		for k, cl := range invs {
			g := f.evalClause(cl, back, sc(back))
			f.obligeIn(fmt.Sprintf("%s.preserve.%d", prefix, k+1), "loop.preserve", back, g, cl.Text, fmt.Sprintf("%s:%d", shortPath(cl.File), cl.Line))
		}
		if implicit != nil {
			// implicit facts are maintained by construction (ghost index)
		}
	}
	// exit
	exit := head.clone()
	if ct != "" {
		f.assume(exit, fmt.Sprintf("(not %s)", ct))
	} else if cond == nil {
		exit = deadEnv()
	}
	return f.merge(append([]*Env{exit}, inner.brk...))
}

func hasKey(m map[int][]Clause, k int) bool { _, ok := m[k]; return ok }

// loopAssignsGhost: can the loop body reach a call whose ghostcall clause assigns the ghost variable g?
// (ghost state only changes at such calls, so other loops leave it alone)
func (f *FuncCtx) loopAssignsGhost(nodes []ast.Node, g string, env *Env) bool {
	if f.C == nil {
		return true
	}
	for callee, cls := range f.C.GhostCall {
		for _, cl := range cls {
			lhs := cl.Text
			if i := strings.Index(lhs, "="); i >= 0 {
				lhs = lhs[:i]
			}
			if i := strings.Index(lhs, "["); i >= 0 {
				lhs = lhs[:i]
			}
			if strings.TrimSpace(lhs) == g && f.loopCalls(nodes, strings.TrimPrefix(callee, "after:"), env) {
				return true
			}
		}
	}
	return false
}

// loopCalls: does the loop body syntactically contain a call whose callee text is name?
func (f *FuncCtx) loopCalls(nodes []ast.Node, name string, env *Env) bool {
	found := false
	for _, nd := range nodes {
		if nd == nil {
			continue
		}
		ast.Inspect(nd, func(n ast.Node) bool {
			switch c := n.(type) {
			case *ast.CallExpr:
				ct := exprStr(ast.Unparen(c.Fun))
				if ct == name || (strings.HasPrefix(name, "*.") && strings.HasSuffix(ct, name[1:])) {
					found = true
				}
				// calls through local closures may reach the tracked callee
				if id, ok := ast.Unparen(c.Fun).(*ast.Ident); ok {
					if _, isVar := f.info().ObjectOf(id).(*types.Var); isVar {
						found = found || f.closureMayCall(id, name, env)
					}
				}
				// same-package callees that are expanded in place (no contract, or marked inline) may reach it too
				if fn := f.staticCallee(c); fn != nil && !found {
					found = f.inlinedMayCall(fn, name, env)
				}
			case *ast.SendStmt:
				if "send "+exprStr(c.Chan) == name {
					found = true
				}
			case *ast.GoStmt:
				gt := exprStr(ast.Unparen(c.Call.Fun))
				if _, isLit := ast.Unparen(c.Call.Fun).(*ast.FuncLit); isLit {
					gt = "func"
				}
				if "go "+gt == name {
					found = true
				}
			}
			return !found
		})
	}
	return found
}

// staticCallee returns the declared function or method a call statically resolves to (nil otherwise).
func (f *FuncCtx) staticCallee(c *ast.CallExpr) *types.Func {
	switch fun := ast.Unparen(c.Fun).(type) {
	case *ast.Ident:
		fn, _ := f.info().ObjectOf(fun).(*types.Func)
		return fn
	case *ast.SelectorExpr:
		if sel, ok := f.info().Selections[fun]; ok {
			fn, _ := sel.Obj().(*types.Func)
			return fn
		}
		fn, _ := f.info().ObjectOf(fun.Sel).(*types.Func)
		return fn
	}
	return nil
}

func (f *FuncCtx) inlinedMayCall(fn *types.Func, name string, env *Env) bool {
	fn = fn.Origin()
	_, c := f.E.contractFor(fn, f.Pkg)
	if c != nil && !c.Inline {
		return false // called through its contract: its internal calls are not events of this function
	}
	decl := f.E.declOf(fn)
	if decl == nil || decl.Body == nil || f.E.pkgOf(fn) != f.Pkg {
		return false
	}
	if f.mayCallBusy == nil {
		f.mayCallBusy = map[types.Object]bool{}
	}
	if f.mayCallBusy[fn] {
		return false
	}
	f.mayCallBusy[fn] = true
	defer delete(f.mayCallBusy, fn)
	return f.loopCalls([]ast.Node{decl.Body}, name, env)
}

func (f *FuncCtx) closureMayCall(id *ast.Ident, name string, env *Env) bool {
	// a local closure (bound function literal) reaches a tracked callee only if one of the literals it
	// may be bound to contains such a call (transitively); an opaque function value (parameter, range
	// variable, field) cannot reach the syntactic call sites of this function
	o := f.info().ObjectOf(id)
	if o == nil {
		return false
	}
	if f.mayCallBusy[o] {
		return false
	}
	if f.mayCallBusy == nil {
		f.mayCallBusy = map[types.Object]bool{}
	}
	f.mayCallBusy[o] = true
	defer delete(f.mayCallBusy, o)
	var lits []*ast.FuncLit
	if v, ok := env.vars[o]; ok && v.Clo != nil {
		if lit, ok := v.Clo.Lit.(*ast.FuncLit); ok {
			lits = append(lits, lit)
		}
	}
	lits = append(lits, f.E.litsOf(f.Pkg, o)...)
	for _, lit := range lits {
		if f.loopCalls([]ast.Node{lit.Body}, name, env) {
			return true
		}
	}
	return false
}

func (f *FuncCtx) obligeIn(name, kind string, env *Env, goal, text, src string) {
	f.oblige(name, kind, env, goal, text, src)
}

func (f *FuncCtx) forStmt(s *ast.ForStmt, env *Env, fl *flow, label string) *Env {
	if s.Init != nil {
		env = f.stmt(s.Init, env, fl)
	}
	var cond func(e *Env) string
	if s.Cond != nil {
		cond = func(e *Env) string { return f.expr(s.Cond, e).T }
	}
	var post func(e *Env)
	if s.Post != nil {
		post = func(e *Env) { *e = *f.stmt(s.Post, e, nil) }
	}
	nodes := []ast.Node{s.Body}
	if s.Post != nil {
		nodes = append(nodes, s.Post)
	}
	if ghost, implicit, gpost := f.countedFor(s, env, post); ghost != nil {
		return f.loopCommon(label, env, fl, nodes, s.Body.Lbrace, ghost, implicit, cond, nil, s.Body, gpost)
	}
	return f.loopCommon(label, env, fl, nodes, s.Body.Lbrace, nil, nil, cond, nil, s.Body, post)
}

// countedFor gives a three-clause loop `for i := a; i < n; i++` whose body never assigns i the iteration ghost $i of a
// range loop (i == a + $i, $i >= 0, and i <= n while n is a length or variable the loop leaves alone), so that an
// invariant written over $i reads the same whether the loop is written with range or with an index. Only when the
// invariants of this loop mention $i: other loops are generated exactly as before.
func (f *FuncCtx) countedFor(s *ast.ForStmt, env *Env, post func(e *Env)) (map[string]Val, func(e *Env) []string, func(e *Env)) {
	fr := f.fr
	c := fr.c
	for p := fr.parent; c == nil && p != nil; p = p.parent {
		c = p.c
	}
	ord := fr.loopOrd + 1
	if c == nil || s.Init == nil || s.Post == nil || s.Cond == nil {
		return nil, nil, nil
	}
	uses := false
	for _, cl := range c.LoopInv[ord] {
		if strings.Contains(cl.Text, "$i") {
			uses = true
		}
	}
	for _, cl := range c.LoopRet[ord] {
		if strings.Contains(cl.Text, "$i") {
			uses = true
		}
	}
	if !uses {
		return nil, nil, nil
	}
	as, ok := s.Init.(*ast.AssignStmt)
	if !ok || as.Tok != token.DEFINE || len(as.Lhs) != 1 || len(as.Rhs) != 1 {
		return nil, nil, nil
	}
	id, ok := as.Lhs[0].(*ast.Ident)
	if !ok {
		return nil, nil, nil
	}
	obj := f.info().Defs[id]
	inc, ok := s.Post.(*ast.IncDecStmt)
	if !ok || inc.Tok != token.INC || obj == nil {
		return nil, nil, nil
	}
	if pid, ok := inc.X.(*ast.Ident); !ok || f.info().ObjectOf(pid) != obj {
		return nil, nil, nil
	}
	be, ok := s.Cond.(*ast.BinaryExpr)
	if !ok || be.Op != token.LSS {
		return nil, nil, nil
	}
	if cid, ok := be.X.(*ast.Ident); !ok || f.info().ObjectOf(cid) != obj {
		return nil, nil, nil
	}
	// the body must not assign the index (or take its address), and must not assign the variable behind the bound
	var boundObj types.Object
	switch n := ast.Unparen(be.Y).(type) {
	case *ast.Ident:
		boundObj = f.info().ObjectOf(n)
	case *ast.CallExpr:
		if fid, ok := n.Fun.(*ast.Ident); ok && fid.Name == "len" && len(n.Args) == 1 {
			if aid, ok := ast.Unparen(n.Args[0]).(*ast.Ident); ok {
				boundObj = f.info().ObjectOf(aid)
			}
		}
		if boundObj == nil {
			// len(<path>) of a field path: accepted; whether the loop leaves it alone is read off the loop rule itself
			// (the bound must denote the same term before the loop and at the havocked loop head, see implicit below)
			if fid, ok := n.Fun.(*ast.Ident); !ok || fid.Name != "len" || len(n.Args) != 1 {
				return nil, nil, nil
			}
			pure := true
			ast.Inspect(n.Args[0], func(m ast.Node) bool {
				if _, isCall := m.(*ast.CallExpr); isCall {
					pure = false
				}
				return pure
			})
			if !pure {
				return nil, nil, nil
			}
		}
	case *ast.BasicLit:
	default:
		return nil, nil, nil
	}
	bad := false
	ast.Inspect(s.Body, func(n ast.Node) bool {
		switch st := n.(type) {
		case *ast.AssignStmt:
			for _, l := range st.Lhs {
				if lid, ok := ast.Unparen(l).(*ast.Ident); ok {
					if o := f.info().ObjectOf(lid); o == obj || (boundObj != nil && o == boundObj) {
						bad = true
					}
				}
			}
		case *ast.IncDecStmt:
			if lid, ok := ast.Unparen(st.X).(*ast.Ident); ok {
				if o := f.info().ObjectOf(lid); o == obj || (boundObj != nil && o == boundObj) {
					bad = true
				}
			}
		case *ast.UnaryExpr:
			if st.Op == token.AND {
				if lid, ok := ast.Unparen(st.X).(*ast.Ident); ok {
					if o := f.info().ObjectOf(lid); o == obj || (boundObj != nil && o == boundObj) {
						bad = true
					}
				}
			}
		case *ast.RangeStmt:
			for _, l := range []ast.Expr{st.Key, st.Value} {
				if lid, ok := l.(*ast.Ident); ok && st.Tok == token.ASSIGN {
					if o := f.info().ObjectOf(lid); o == obj || (boundObj != nil && o == boundObj) {
						bad = true
					}
				}
			}
		}
		return !bad
	})
	// a function literal anywhere in the enclosing function that assigns the index or the bound could run inside the body
	root := f.fr
	for root.parent != nil {
		root = root.parent
	}
	if root.scope != nil && !bad {
		ast.Inspect(root.scope, func(n ast.Node) bool {
			lit, ok := n.(*ast.FuncLit)
			if !ok {
				return !bad
			}
			ast.Inspect(lit.Body, func(m ast.Node) bool {
				var targets []ast.Expr
				switch st := m.(type) {
				case *ast.AssignStmt:
					targets = st.Lhs
				case *ast.IncDecStmt:
					targets = []ast.Expr{st.X}
				}
				for _, l := range targets {
					if lid, ok := ast.Unparen(l).(*ast.Ident); ok {
						if o := f.info().ObjectOf(lid); o == obj || (boundObj != nil && o == boundObj) {
							bad = true
						}
					}
				}
				return !bad
			})
			return !bad
		})
	}
	if bad || f.S.bv {
		return nil, nil, nil
	}
	start, ok := env.vars[obj]
	if !ok || !isInteger(start.Typ) {
		return nil, nil, nil
	}
	startT := start.T
	boundPre := f.expr(be.Y, env).T
	iName := "$i"
	iNameN := fmt.Sprintf("$i%d", ord)
	intT := types.Typ[types.Int]
	ghost := map[string]Val{iNameN: {T: "0", Typ: intT}, iName: {T: "0", Typ: intT}}
	implicit := func(e *Env) []string {
		e.names[iName] = e.names[iNameN]
		g := e.names[iNameN].T
		iv := e.vars[obj].T
		out := []string{fmt.Sprintf("(<= 0 %s)", g), fmt.Sprintf("(= %s (+ %s %s))", iv, startT, g)}
		bound := f.expr(be.Y, e).T
		if bound != boundPre {
			// the loop may change what the bound denotes: no upper-bound fact
			return out
		}
		if _, isLen := ast.Unparen(be.Y).(*ast.CallExpr); isLen && startT == "0" {
			// counting from 0 up to a length: 0 <= i <= len(x) throughout
			out = append(out, fmt.Sprintf("(<= 0 %s)", bound), fmt.Sprintf("(<= %s %s)", iv, bound))
		} else {
			out = append(out, fmt.Sprintf("(or (<= %s %s) (= %s 0))", iv, bound, g))
		}
		return out
	}
	gpost := func(e *Env) {
		post(e)
		e.names[iNameN] = Val{T: fmt.Sprintf("(+ %s 1)", e.names[iNameN].T), Typ: intT}
		e.names[iName] = e.names[iNameN]
	}
	return ghost, implicit, gpost
}

func (f *FuncCtx) rangeStmt(s *ast.RangeStmt, env *Env, fl *flow, label string) *Env {
	x := f.name(f.expr(s.X, env), "rng")
	if x.Typ == nil {
		// range over untyped constant int
		x = f.coerce(x, types.Typ[types.Int])
	}
	if strings.HasPrefix(x.T, "(mk_slice ") && strings.HasSuffix(x.T, " 0 true)") {
		// ranging over a literally empty slice (e.g. no variadic arguments): the body never runs
		return env
	}
	ordNext := f.fr.loopOrd + 1
	iName := "$i"
	iNameN := fmt.Sprintf("$i%d", ordNext)
	intT := types.Typ[types.Int]
	setKV := func(e *Env, k, v *Val) {
		set := func(lhs ast.Expr, val Val) {
			if lhs == nil {
				return
			}
			id, ok := lhs.(*ast.Ident)
			if ok && id.Name == "_" {
				return
			}
			if ok && s.Tok == token.DEFINE {
				if o := f.info().Defs[id]; o != nil {
					e.vars[o] = f.name(f.coerce(val, o.Type()), id.Name)
					return
				}
			}
			f.assign(lhs, val, e)
		}
		if k != nil {
			set(s.Key, *k)
		}
		if v != nil && s.Value != nil {
			set(s.Value, *v)
		}
	}
	idx := func(e *Env) Val { return e.names[iNameN] }
	ghost := map[string]Val{iNameN: {T: "0", Typ: intT}, iName: {T: "0", Typ: intT}}
	sync := func(e *Env) {
		e.names[iName] = e.names[iNameN]
		// a nested range loop overwrites the unnumbered ghosts: restore this loop's
		if v, ok := e.names[fmt.Sprintf("$ks%d", ordNext)]; ok {
			e.names["$ks"] = v
		}
		if v, ok := e.names[fmt.Sprintf("$m%d", ordNext)]; ok {
			e.names["$m"] = v
		}
	}
	post := func(e *Env) {
		e.names[iNameN] = Val{T: fmt.Sprintf("(+ %s 1)", idx(e).T), Typ: intT}
		sync(e)
	}
	nodes := []ast.Node{s.Body}
	if s.Tok == token.ASSIGN {
		nodes = append(nodes, s)
	}
	switch u := x.Typ.Underlying().(type) {
	case *types.Slice, *types.Array:
		var ln string
		var elemT types.Type
		var at func(i string) string
		if sl, ok := u.(*types.Slice); ok {
			ln = fmt.Sprintf("(s_len %s)", x.T)
			elemT = sl.Elem()
			at = func(i string) string { return fmt.Sprintf("(select (s_arr %s) %s)", x.T, i) }
		} else {
			a := u.(*types.Array)
			ln = fmt.Sprint(a.Len())
			elemT = a.Elem()
			at = func(i string) string { return fmt.Sprintf("(select %s %s)", x.T, i) }
			if _, ok := byteArray(a); ok {
				srt := f.S.SortOf(x.Typ)
				at = func(i string) string { return fmt.Sprintf("(at_%s %s %s)", srt, x.T, i) }
			}
		}
		implicit := func(e *Env) []string {
			sync(e)
			return []string{fmt.Sprintf("(<= 0 %s)", idx(e).T), fmt.Sprintf("(<= %s %s)", idx(e).T, ln)}
		}
		cond := func(e *Env) string { return fmt.Sprintf("(< %s %s)", idx(e).T, ln) }
		bind := func(e *Env) {
			k := idx(e)
			v := Val{T: at(k.T), Typ: elemT}
			if _, basic := elemT.Underlying().(*types.Basic); !basic && f.spec == nil {
				// the element bound by range is a value of the element type
				v = f.name(v, "elem")
				for _, a := range f.typeInv(v.T, elemT, 0) {
					f.assume(e, a)
				}
			}
			setKV(e, &k, &v)
		}
		return f.loopCommon(label, env, fl, nodes, s.Body.Lbrace, ghost, implicit, cond, bind, s.Body, post)
	case *types.Basic:
		if u.Info()&types.IsInteger != 0 {
			implicit := func(e *Env) []string {
				sync(e)
				return []string{fmt.Sprintf("(<= 0 %s)", idx(e).T), fmt.Sprintf("(or (<= %s %s) (and (< %s 0) (= %s 0)))", idx(e).T, x.T, x.T, idx(e).T)}
			}
			cond := func(e *Env) string { return fmt.Sprintf("(< %s %s)", idx(e).T, x.T) }
			bind := func(e *Env) {
				k := idx(e)
				k.Typ = x.Typ
				setKV(e, &k, nil)
			}
			return f.loopCommon(label, env, fl, nodes, s.Body.Lbrace, ghost, implicit, cond, bind, s.Body, post)
		}
		f.fail("range over string unsupported")
		return env
	case *types.Map:
		// ghost permutation ks[0..card) of the domain, fixed at loop entry
		ks := f.S.SortOf(u.Key())
		seq := f.fresh("ks", fmt.Sprintf("(Array Int %s)", ks))
		inv := f.fresh("ksidx", fmt.Sprintf("(Array %s Int)", ks))
		card := fmt.Sprintf("(m_card %s)", x.T)
		f.emit(fmt.Sprintf("(assert (forall ((i!q Int)) (! (=> (and (<= 0 i!q) (< i!q %s)) (and (select (m_dom %s) (select %s i!q)) (= (select %s (select %s i!q)) i!q))) :pattern ((select %s i!q)))))", card, x.T, seq, inv, seq, seq))
		f.emit(fmt.Sprintf("(assert (forall ((k!q %s)) (! (=> (select (m_dom %s) k!q) (and (<= 0 (select %s k!q)) (< (select %s k!q) %s) (= (select %s (select %s k!q)) k!q))) :pattern ((select (m_dom %s) k!q)) :pattern ((select %s k!q)))))", ks, x.T, inv, inv, card, seq, inv, x.T, inv))
		ksT := types.NewSlice(u.Key())
		f.S.SortOf(ksT)
		ghost["$ks"] = Val{T: fmt.Sprintf("(mk_slice %s %s false)", seq, card), Typ: ksT}
		ghost[fmt.Sprintf("$ks%d", ordNext)] = ghost["$ks"]
		ghost["$m"] = x
		ghost[fmt.Sprintf("$m%d", ordNext)] = x
		implicit := func(e *Env) []string {
			sync(e)
			return []string{fmt.Sprintf("(<= 0 %s)", idx(e).T), fmt.Sprintf("(<= %s %s)", idx(e).T, card)}
		}
		cond := func(e *Env) string { return fmt.Sprintf("(< %s %s)", idx(e).T, card) }
		bind := func(e *Env) {
			k := Val{T: fmt.Sprintf("(select %s %s)", seq, idx(e).T), Typ: u.Key()}
			k = f.name(k, "key")
			v := Val{T: fmt.Sprintf("(select (m_val %s) %s)", x.T, k.T), Typ: u.Elem()}
			setKV(e, &k, &v)
			f.note("map iteration: arbitrary fixed order over the entry-time domain (the loop body must not insert into or delete from the ranged map)")
		}
		return f.loopCommon(label, env, fl, nodes, s.Body.Lbrace, ghost, implicit, cond, bind, s.Body, post)
	case *types.Chan:
		f.note("range over channel: arbitrary number of havocked receives")
		cv := f.fresh("more", "Bool")
		_ = cv
		bind := func(e *Env) {
			v := f.freshVal(u.Elem(), "recv")
			setKV(e, &v, nil)
		}
		cond := func(e *Env) string { return f.fresh("more", "Bool") }
		implicit := func(e *Env) []string {
			sync(e)
			return []string{fmt.Sprintf("(<= 0 %s)", idx(e).T)}
		}
		return f.loopCommon(label, env, fl, nodes, s.Body.Lbrace, ghost, implicit, cond, bind, s.Body, post)
	}
	f.fail("unsupported range over %s", x.Typ)
	return env
}


// afterStmt proves and then assumes the 'after <callee>: e' stepping stones attached to calls in this statement.
func (f *FuncCtx) afterStmt(s ast.Stmt, env *Env) {
	hasGhostAfter := false
	if f.C != nil {
		for k := range f.C.GhostCall {
			if strings.HasPrefix(k, "after:") {
				hasGhostAfter = true
			}
		}
	}
	if f.C == nil || (len(f.C.After) == 0 && !hasGhostAfter) || f.fr == nil || f.fr.depth != 0 || env.dead {
		return
	}
	ast.Inspect(s, func(n ast.Node) bool {
		if _, ok := n.(*ast.FuncLit); ok {
			return false
		}
		c, ok := n.(*ast.CallExpr)
		if !ok {
			return true
		}
		text := exprStr(ast.Unparen(c.Fun))
		for _, cl := range f.C.GhostCall["after:"+text] {
			f.ghostAssign(cl, map[string]Val{}, &ast.BadStmt{From: s.End(), To: s.End()}, env)
		}
		// site-specific stepping stones: 'after callee#n: e' applies to the n-th call of that callee (source order) only
		siteKeyed := false
		for k := range f.C.After {
			if strings.HasPrefix(k, text+"#") {
				siteKeyed = true
			}
		}
		if siteKeyed {
			f.callOrd["aftersite:"+text]++
			site := f.callOrd["aftersite:"+text]
			if f.C.SiteMap != nil {
				// reordered statements: this call is the recorded site whose assignment target it has (0: none)
				mapped := false
				for k := range f.C.SiteMap {
					if strings.HasPrefix(k, text+"#") {
						mapped = true
					}
				}
				if mapped {
					site = f.C.SiteMap[fmt.Sprintf("%s#%d", text, site)]
				}
			}
			for k, cl := range f.C.After[fmt.Sprintf("%s#%d", text, site)] {
				sc := &specCtx{old: f.entry, pos: s.End(), scope: f.fr.scope, pcs: f.PC}
				g := f.evalClause(cl, env, sc)
				f.oblige(fmt.Sprintf("after.%s#%d.s%d", text, site, k+1), "after", env, g, cl.Text, fmt.Sprintf("%s:%d", shortPath(cl.File), cl.Line))
				f.assume(env, g)
			}
		}
		cls, ok := f.C.After[text]
		if !ok {
			return true
		}
		f.callOrd["after:"+text]++
		for k, cl := range cls {
			sc := &specCtx{old: f.entry, pos: s.End(), scope: f.fr.scope, pcs: f.PC}
			g := f.evalClause(cl, env, sc)
			f.oblige(fmt.Sprintf("after.%s#%d.%d", text, f.callOrd["after:"+text], k+1), "after", env, g, cl.Text, fmt.Sprintf("%s:%d", shortPath(cl.File), cl.Line))
			f.assume(env, g)
		}
		return true
	})
}


// recordAliases notes when a local map variable and a stored map (map element / field) denote the same map:
//   x := m[k]   x, ok := m[k]   m[k] = x   x = p.f   p.f = x
func (f *FuncCtx) recordAliases(s *ast.AssignStmt, env *Env) {
	isMap := func(e ast.Expr) bool {
		t := f.typeOf(e)
		if t == nil {
			return false
		}
		_, ok := t.Underlying().(*types.Map)
		return ok
	}
	stored := func(e ast.Expr) bool {
		switch ast.Unparen(e).(type) {
		case *ast.IndexExpr, *ast.SelectorExpr:
			return true
		}
		return false
	}
	if len(s.Rhs) == 1 && len(s.Lhs) >= 1 {
		l, r := ast.Unparen(s.Lhs[0]), ast.Unparen(s.Rhs[0])
		if id, ok := l.(*ast.Ident); ok && stored(r) && isMap(r) {
			if o := f.info().ObjectOf(id); o != nil {
				f.aliases[o] = r
			}
		}
		if id, ok := r.(*ast.Ident); ok && stored(l) && isMap(l) && len(s.Lhs) == 1 {
			if o := f.info().ObjectOf(id); o != nil {
				f.aliases[o] = l
			}
		}
		if id, ok := l.(*ast.Ident); ok && !stored(r) && isMap(l) {
			// rebinding the variable to a fresh map ends a previous alias
			if o := f.info().ObjectOf(id); o != nil {
				if _, was := f.aliases[o]; was {
					if _, isIdent := r.(*ast.Ident); !isIdent {
						delete(f.aliases, o)
					}
				}
			}
		}
	}
}


// recvChan returns the channel expression of a receive communication clause.
func recvChan(s ast.Stmt) ast.Expr {
	var e ast.Expr
	switch s := s.(type) {
	case *ast.ExprStmt:
		e = s.X
	case *ast.AssignStmt:
		if len(s.Rhs) == 1 {
			e = s.Rhs[0]
		}
	}
	if u, ok := ast.Unparen(e).(*ast.UnaryExpr); ok && u.Op == token.ARROW {
		return u.X
	}
	return nil
}
