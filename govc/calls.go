package main

import (
	"os"
	"regexp"
	"fmt"
	"go/ast"
	"go/token"
	"go/types"
	"strings"
)

// known external functions: result nil-ness.
var nonNilErrFuncs = map[string]bool{
	"github.com/obolnetwork/charon/app/errors.New":  true,
	"github.com/obolnetwork/charon/app/errors.Wrap": true,
	"errors.New": true,
	"fmt.Errorf": true,
	"github.com/obolnetwork/charon/app/errors.NewSentinel": true,
}

// ignored calls (no effect on modelled state, no interesting result)
var ignoredPkgs = map[string]bool{
	"github.com/obolnetwork/charon/app/log": true,
	"github.com/obolnetwork/charon/app/z":   true,
	"go.opentelemetry.io/otel/trace":        true,
	"github.com/obolnetwork/charon/app/tracer": true,
}

func (f *FuncCtx) calleeKey(fn *types.Func) string {
	sig := fn.Type().(*types.Signature)
	if r := sig.Recv(); r != nil {
		t := r.Type()
		if p, ok := t.(*types.Pointer); ok {
			t = p.Elem()
		}
		if n, ok := types.Unalias(t).(*types.Named); ok {
			return n.Obj().Name() + "." + fn.Name()
		}
		return fn.Name()
	}
	return fn.Name()
}

// call translates a call expression (with effects on env).
func (f *FuncCtx) call(e *ast.CallExpr, env *Env) []Val {
	// spec forms
	if f.spec != nil {
		if vs, ok := f.specCall(e, env); ok {
			return vs
		}
	}
	// conversion
	if tv, ok := f.info().Types[e.Fun]; ok && tv.IsType() {
		x := f.expr(e.Args[0], env)
		return []Val{f.convert(x, tv.Type)}
	}
	fun := ast.Unparen(e.Fun)
	// generic instantiation
	switch ix := fun.(type) {
	case *ast.IndexExpr:
		if tv, ok := f.info().Types[ix.X]; ok {
			if _, isSig := tv.Type.(*types.Signature); isSig {
				fun = ix.X
			}
		}
	case *ast.IndexListExpr:
		fun = ix.X
	}
	if f.spec != nil {
		// conversions in spec context: int64(x), T(x)
		if vs, ok := f.specConversion(fun, e, env); ok {
			return vs
		}
	}
	switch fn := fun.(type) {
	case *ast.Ident:
		o := f.info().ObjectOf(fn)
		if o == nil && f.spec != nil {
			o = f.lookupPkgObj(fn.Name)
			if o == nil {
				if v, ok := f.specIdent(fn.Name, env); ok && v.Clo != nil {
					return f.callClosure(v.Clo, e, env)
				}
			}
		}
		switch o := o.(type) {
		case *types.Builtin:
			return f.builtin(o.Name(), e, env)
		case *types.Func:
			return f.callFunc(o, nil, nil, e, env)
		case *types.Var:
			v := f.objVal(o, env)
			if v.Clo != nil {
				return f.callClosure(v.Clo, e, env)
			}
			return f.callValue(exprStr(fun), v, e, env)
		case nil:
			if b := types.Universe.Lookup(fn.Name); b != nil {
				if bb, ok := b.(*types.Builtin); ok {
					return f.builtin(bb.Name(), e, env)
				}
			}
		}
	case *ast.SelectorExpr:
		// package-qualified
		if id, ok := fn.X.(*ast.Ident); ok {
			var pkg *types.Package
			if pn, ok := f.info().ObjectOf(id).(*types.PkgName); ok {
				pkg = pn.Imported()
			} else if f.spec != nil && f.info().ObjectOf(id) == nil {
				if _, isLocal := f.specIdent(id.Name, env); !isLocal {
					pkg = f.specPkg(id.Name)
				}
			}
			if pkg != nil {
				o := pkg.Scope().Lookup(fn.Sel.Name)
				switch o := o.(type) {
				case *types.Func:
					return f.callFunc(o, nil, nil, e, env)
				case *types.Var:
					return f.callValue(exprStr(fun), f.objVal(o, env), e, env)
				case *types.TypeName:
					x := f.expr(e.Args[0], env)
					return []Val{f.convert(x, o.Type())}
				}
				f.fail("unknown function %s", exprStr(fun))
				return f.havocResults(e, env)
			}
		}
		recv := f.expr(fn.X, env)
		if recv.Typ == nil {
			f.fail("method call on untyped value %s", exprStr(fun))
			return f.havocResults(e, env)
		}
		obj, path, _ := types.LookupFieldOrMethod(recv.Typ, true, f.Pkg.Types, fn.Sel.Name)
		if obj == nil && f.spec != nil && f.spec.pkg != nil {
			obj, path, _ = types.LookupFieldOrMethod(recv.Typ, true, f.spec.pkg, fn.Sel.Name)
		}
		if obj == nil {
			obj, path = lookupFieldAnyPkg(recv.Typ, fn.Sel.Name)
		}
		switch o := obj.(type) {
		case *types.Func:
			// walk embedded path to the actual receiver
			cur := recv
			for _, idx := range path[:len(path)-1] {
				t := cur.Typ
				if p, ok := t.Underlying().(*types.Pointer); ok {
					t = p.Elem()
				}
				st, ok := t.Underlying().(*types.Struct)
				if !ok {
					break
				}
				cur = f.field(cur, st.Field(idx), env, fn)
			}
			return f.callFunc(o, &cur, fn.X, e, env)
		case *types.Var:
			// call through a function-typed field
			fv := f.selector(fn, env)
			if fv.Clo != nil {
				return f.callClosure(fv.Clo, e, env)
			}
			key := ""
			if n := namedOf(recv.Typ); n != nil {
				key = n.Obj().Name() + "." + o.Name()
			}
			return f.callFieldFunc(key, exprStr(fun), fv, e, env)
		}
		f.fail("cannot resolve call %s", exprStr(fun))
		return f.havocResults(e, env)
	case *ast.FuncLit:
		return f.callClosure(&Closure{Lit: fn, Name: "func literal"}, e, env)
	}
	// calling the result of an arbitrary expression
	v := f.expr(fun, env)
	if v.Clo != nil {
		return f.callClosure(v.Clo, e, env)
	}
	return f.callValue(exprStr(fun), v, e, env)
}

func namedOf(t types.Type) *types.Named {
	if p, ok := t.Underlying().(*types.Pointer); ok {
		t = p.Elem()
	}
	if p, ok := types.Unalias(t).(*types.Pointer); ok {
		t = p.Elem()
	}
	n, _ := types.Unalias(t).(*types.Named)
	return n
}

func (f *FuncCtx) lookupPkgObj(name string) types.Object {
	pkg := f.Pkg.Types
	if f.spec != nil && f.spec.pkg != nil {
		pkg = f.spec.pkg
	}
	return pkg.Scope().Lookup(name)
}

func (f *FuncCtx) specConversion(fun ast.Expr, e *ast.CallExpr, env *Env) ([]Val, bool) {
	if len(e.Args) != 1 {
		return nil, false
	}
	var t types.Type
	switch fn := fun.(type) {
	case *ast.Ident:
		if f.info().ObjectOf(fn) != nil {
			return nil, false
		}
		if o := types.Universe.Lookup(fn.Name); o != nil {
			if tn, ok := o.(*types.TypeName); ok {
				t = tn.Type()
			}
		} else if o := f.lookupPkgObj(fn.Name); o != nil {
			if tn, ok := o.(*types.TypeName); ok {
				t = tn.Type()
			}
		}
	case *ast.ArrayType, *ast.MapType, *ast.StarExpr:
		t = f.specType(exprStr(fn))
	}
	if t == nil {
		return nil, false
	}
	return []Val{f.convert(f.specExpr(e.Args[0], env), t)}, true
}

// args evaluates call arguments against a signature.
func (f *FuncCtx) args(sig *types.Signature, e *ast.CallExpr, env *Env) []Val {
	var out []Val
	np := sig.Params().Len()
	// f(g()) with multi-value g
	if len(e.Args) == 1 && np > 1 {
		vs := f.exprMulti(e.Args[0], env)
		if len(vs) == np {
			return vs
		}
	}
	for i, a := range e.Args {
		var pt types.Type
		if sig.Variadic() && i >= np-1 {
			st := sig.Params().At(np - 1).Type().(*types.Slice)
			if e.Ellipsis != token.NoPos {
				pt = st
			} else {
				pt = st.Elem()
			}
		} else if i < np {
			pt = sig.Params().At(i).Type()
		}
		v := f.evalArg(a, env)
		out = append(out, f.coerce(v, pt))
	}
	if sig.Variadic() && e.Ellipsis == token.NoPos {
		// pack variadic args into a slice
		st := sig.Params().At(np - 1).Type().(*types.Slice)
		es := f.S.SortOf(st.Elem())
		arr := f.S.constArr("Int", es, f.S.Zero(st.Elem()))
		n := 0
		fixed := np - 1
		if len(out) < fixed {
			fixed = len(out)
		}
		for _, v := range out[fixed:] {
			arr = fmt.Sprintf("(store %s %d %s)", arr, n, v.T)
			n++
		}
		nilv := "false"
		if n == 0 {
			nilv = "true"
		}
		out = append(out[:fixed:fixed], Val{T: fmt.Sprintf("(mk_slice %s %d %s)", arr, n, nilv), Typ: st})
	}
	return out
}

func (f *FuncCtx) evalArg(a ast.Expr, env *Env) Val {
	if f.spec != nil {
		return f.specExpr(a, env)
	}
	return f.expr(a, env)
}

func (f *FuncCtx) havocResults(e *ast.CallExpr, env *Env) []Val {
	t := f.typeOf(e)
	if t == nil {
		return []Val{{T: "zero_Opaque", S: "Opaque"}}
	}
	if tup, ok := t.(*types.Tuple); ok {
		var out []Val
		for i := 0; i < tup.Len(); i++ {
			out = append(out, f.freshVal(tup.At(i).Type(), "ret"))
		}
		return out
	}
	return []Val{f.freshVal(t, "ret")}
}

func (f *FuncCtx) resultsOf(sig *types.Signature, hint string) []Val {
	var out []Val
	for i := 0; i < sig.Results().Len(); i++ {
		out = append(out, f.freshVal(sig.Results().At(i).Type(), hint))
	}
	return out
}

// instSig returns the signature as seen at the call site (instantiated generics).
func (f *FuncCtx) instSig(e *ast.CallExpr, fn *types.Func) *types.Signature {
	if tv, ok := f.info().Types[e.Fun]; ok {
		if s, ok := tv.Type.(*types.Signature); ok {
			return s
		}
	}
	return fn.Type().(*types.Signature)
}

// countCall maintains ghost call counters and callreq obligations.
func (f *FuncCtx) countCall(text string, args []Val, e *ast.CallExpr, env *Env) {
	if f.spec != nil {
		return
	}
	fr := f.fr
	// contract clauses are evaluated at the program point of the outermost call site (inlined
	// closures / helpers are expanded there), with the names visible at that point
	sitePos := e.Pos()
	for x := f.fr; x != nil && x.depth > 0; x = x.parent {
		sitePos = x.callPos
		fr = x.parent
	}
	// callreq obligations of the enclosing (top-level) contract
	if f.C != nil {
		reqs, ok := f.C.CallReq[text]
		hasSite := false
		for k := range f.C.CallReq {
			if strings.HasPrefix(k, text+"#") {
				hasSite = true
			}
		}
		if ok || hasSite {
			f.callOrd[text]++
			bound := map[string]Val{}
			for i, a := range args {
				bound[fmt.Sprintf("a%d", i+1)] = a
				// uK: the K-th argument before its conversion to an interface parameter (json.Marshal(v any), ...)
				if a.Unboxed != nil {
					bound[fmt.Sprintf("u%d", i+1)] = *a.Unboxed
				} else {
					bound[fmt.Sprintf("u%d", i+1)] = a
				}
			}
			if strings.HasPrefix(text, "send ") {
				// nonblocking: the send is a case of a select that has a default clause (it cannot make this goroutine wait)
				nb := "false"
				if f.sendNonBlocking {
					nb = "true"
				}
				bound["nonblocking"] = f.boolVal(nb)
			}
			for k, cl := range reqs {
				sc := &specCtx{bound: []map[string]Val{bound}, old: f.entry, pos: sitePos, scope: fr.scope, pcs: f.PC, innerPos: e.Pos()}
				g := f.evalClause(cl, env, sc)
				f.oblige(fmt.Sprintf("callreq.%s#%d.%d", text, f.callOrd[text], k+1), "callreq", env, g, cl.Text, fmt.Sprintf("%s:%d", shortPath(cl.File), cl.Line))
			}
			// `callreq callee#n: e` applies to the n-th call site of that callee only (sites in source order)
			for k, cl := range f.C.CallReq[fmt.Sprintf("%s#%d", text, f.callOrd[text])] {
				sc := &specCtx{bound: []map[string]Val{bound}, old: f.entry, pos: sitePos, scope: fr.scope, pcs: f.PC, innerPos: e.Pos()}
				g := f.evalClause(cl, env, sc)
				f.oblige(fmt.Sprintf("callreq.%s#%d.s%d", text, f.callOrd[text], k+1), "callreq", env, g, cl.Text, fmt.Sprintf("%s:%d", shortPath(cl.File), cl.Line))
			}
		}
	}
	if f.C != nil {
		if gcs, ok := f.C.GhostCall[text]; ok {
			bound := map[string]Val{}
			for i, a := range args {
				bound[fmt.Sprintf("a%d", i+1)] = a
			}
			for _, cl := range gcs {
				f.ghostAssign(cl, bound, e, env)
			}
		}
	}
	// wildcard counters: ncalls("*.Clone") counts every call whose callee text ends in ".Clone"
	for _, tk := range sortedKeys(f.trackCall) {
		if strings.HasPrefix(tk, "*.") && strings.HasSuffix(text, tk[1:]) {
			wk := "calls:" + tk
			cur := "0"
			if v, ok := env.names[wk]; ok {
				cur = v.T
			}
			env.names[wk] = f.name(Val{T: fmt.Sprintf("(+ %s 1)", cur), Typ: types.Typ[types.Int]}, "ncalls")
		}
	}
	key := "calls:" + text
	if f.trackCall[text] {
		cur := "0"
		if v, ok := env.names[key]; ok {
			cur = v.T
		}
		env.names[key] = Val{T: fmt.Sprintf("(+ %s 1)", cur), Typ: types.Typ[types.Int]}
		env.names[key] = f.name(env.names[key], "ncalls")
		// remember last arguments
		for i, a := range args {
			if a.Clo == nil && a.T != nilMarker {
				env.names[fmt.Sprintf("lastarg:%s:%d", text, i+1)] = a
			}
		}
	}
}

// pureApp applies an uninterpreted function modelling a pure method/function.
func (f *FuncCtx) pureApp(name string, sig *types.Signature, recv *Val, args []Val) []Val {
	var asorts, ats []string
	if recv != nil {
		asorts = append(asorts, f.sortOfVal(*recv))
		ats = append(ats, recv.T)
	}
	for i, a := range args {
		var pt types.Type
		if i < sig.Params().Len() {
			pt = sig.Params().At(i).Type()
		}
		a = f.coerce(a, pt)
		asorts = append(asorts, f.sortOfVal(a))
		ats = append(ats, a.T)
	}
	var out []Val
	for i := 0; i < sig.Results().Len(); i++ {
		rt := sig.Results().At(i).Type()
		fn := "pure." + sanitize(name)
		if sig.Results().Len() > 1 {
			fn = fmt.Sprintf("%s.r%d", fn, i)
		}
		if !f.S.declared[fn] {
			f.S.declare(fn, fmt.Sprintf("(declare-fun %s (%s) %s)", fn, strings.Join(asorts, " "), f.S.SortOf(rt)))
			// type invariants of pure results, once, as a universally quantified axiom
			var qs, qn []string
			for k, as := range asorts {
				qs = append(qs, fmt.Sprintf("(a!%d %s)", k, as))
				qn = append(qn, fmt.Sprintf("a!%d", k))
			}
			app := fn
			if len(qn) > 0 {
				app = fmt.Sprintf("(%s %s)", fn, strings.Join(qn, " "))
			}
			if cs := f.typeInvCheap(app, rt); len(cs) > 0 {
				if len(qn) > 0 {
					f.S.decls = append(f.S.decls, fmt.Sprintf("(assert (forall (%s) (! (and %s) :pattern (%s))))", strings.Join(qs, " "), strings.Join(cs, " "), app))
				} else {
					f.S.decls = append(f.S.decls, fmt.Sprintf("(assert (and %s))", strings.Join(cs, " ")))
				}
			}
		}
		t := fn
		if len(ats) > 0 {
			t = fmt.Sprintf("(%s %s)", fn, strings.Join(ats, " "))
		}
		out = append(out, Val{T: t, Typ: rt})
	}
	return out
}

// aliasesOf returns the local names under which a package is imported in the package under verification.
func (f *FuncCtx) aliasesOf(pkgPath string) []string {
	var out []string
	seen := map[string]bool{}
	for _, file := range f.Pkg.Syntax {
		for _, im := range file.Imports {
			if strings.Trim(im.Path.Value, "\"") == pkgPath && im.Name != nil && !seen[im.Name.Name] {
				seen[im.Name.Name] = true
				out = append(out, im.Name.Name)
			}
		}
	}
	return out
}

func (f *FuncCtx) isPure(keys ...string) bool {
	for _, k := range keys {
		if f.PC != nil && f.PC.Pure[k] {
			return true
		}
		if f.pures[k] {
			return true
		}
	}
	return false
}

// callFunc handles calls to declared functions and methods.
func (f *FuncCtx) callFunc(fn *types.Func, recv *Val, recvExpr ast.Expr, e *ast.CallExpr, env *Env) []Val {
	fn = fn.Origin()
	sig := f.instSig(e, fn)
	if f.spec != nil {
		sig = fn.Type().(*types.Signature)
	}
	key := f.calleeKey(fn)
	pkgPath := ""
	if fn.Pkg() != nil {
		pkgPath = fn.Pkg().Path()
	}
	full := pkgPath + "." + key
	short := key
	if fn.Pkg() != nil && fn.Pkg() != f.Pkg.Types {
		short = fn.Pkg().Name() + "." + key
	}
	if ignoredPkgs[pkgPath] {
		for _, a := range e.Args {
			_ = a
		}
		return f.zeroResults(sig)
	}
	args := f.args(sig, e, env)
	text := exprStr(ast.Unparen(e.Fun))
	f.countCall(text, args, e, env)

	// sync primitives, context: no effect
	switch pkgPath {
	case "sync", "sync/atomic":
		if (fn.Name() == "Lock" || fn.Name() == "RLock") && recvExpr != nil && f.spec == nil {
			f.lockAcquire(recvExpr, env)
		}
		return f.resultsOf(sig, fn.Name())
	}
	if nonNilErrFuncs[pkgPath+"."+fn.Name()] {
		r := f.freshVal(sig.Results().At(0).Type(), "err")
		f.emit(fmt.Sprintf("(assert (not (= %s nil_Err)))", r.T))
		return []Val{r}
	}
	if vs, ok := f.knownExternal(pkgPath, fn, recv, args, sig, env); ok {
		return vs
	}
	// interface method or declared pure
	if recv != nil && f.S.SortOf(recv.Typ) != "" {
		// method declared by an embedded interface: view the receiver at the declaring interface
		if r := fn.Type().(*types.Signature).Recv(); r != nil {
			if _, isIface := r.Type().Underlying().(*types.Interface); isIface {
				if _, vIface := recv.Typ.Underlying().(*types.Interface); vIface && f.S.SortOf(r.Type()) != f.sortOfVal(*recv) {
					rv := f.box(*recv, r.Type())
					recv = &rv
				}
			}
		}
	}
	pureKeys := []string{key, short, full}
	for _, al := range f.aliasesOf(pkgPath) {
		pureKeys = append(pureKeys, al+"."+key)
	}
	if f.isPure(pureKeys...) {
		return f.pureApp(short, sig, recv, args)
	}
	pc, c := f.E.contractFor(fn, f.Pkg)
	if c != nil && !c.Inline {
		f.nopanicCallee(fn, short, e, env, c)
		return f.callContract(fn, c, pc, recv, args, sig, e, env, short)
	}
	// `havoc <callee>`: explicitly abstracted by the contract under verification (results unconstrained, no effect)
	if f.C != nil && f.spec == nil {
		for _, h := range f.C.Havoc {
			if h == key || h == short || h == exprStr(e.Fun) {
				f.note("abstracted on request (havoc): " + short)
				return f.havocResults(e, env)
			}
		}
	}
	// same package body available -> inline small helpers
	if decl := f.E.declOf(fn); decl != nil && decl.Body != nil && f.spec == nil {
		p := f.E.pkgOf(fn)
		if p != nil && p == f.Pkg {
			if (c != nil && c.Inline) || (f.fr.depth < 4 && inlinable(decl)) {
				return f.inlineDecl(fn, decl, c, pc, recv, args, sig, e, env)
			}
		}
	}
	if f.spec != nil {
		// functions used in specs without contract: treat as pure uninterpreted
		return f.pureApp(short, sig, recv, args)
	}
	// abstract: results havocked, modelled state untouched -- except scalars passed by pointer, which the
	// callee may overwrite (errors.As(err, &target), json.Unmarshal(b, &x), ...): those are havocked
	f.havocPointerArgs(e, env)
	f.havocEscapedCaptures(env)
	// a pointer-receiver method called on an addressable local value may overwrite it (id.SetDecString(..))
	if recvExpr != nil {
		if id, ok := ast.Unparen(recvExpr).(*ast.Ident); ok {
			if r := fn.Type().(*types.Signature).Recv(); r != nil {
				if _, isPtr := r.Type().(*types.Pointer); isPtr {
					if o := f.info().ObjectOf(id); o != nil {
						if _, varIsPtr := o.Type().Underlying().(*types.Pointer); !varIsPtr {
							if v, ok := env.vars[o]; ok && v.Clo == nil {
								env.vars[o] = f.freshVal(o.Type(), id.Name)
							}
						}
					}
				}
			}
		}
	}
	if strings.HasPrefix(pkgPath, modulePath) && f.E.declOf(fn) != nil && os.Getenv("VERIF_NO_ABSTRACT_GUARD") == "" {
		// a function of this module that is neither under contract nor expandable in place (it has a loop, or is too
		// deep) is abstracted as having no effect: only sound if it writes no module state (same rule as the frame guard)
		if w, why := f.E.writesHeap(fn, 0, map[*types.Func]bool{}); w {
			f.fail("call of %s: it writes module state (%s) but has no contract and cannot be expanded in place; abstracting it as effect-free would be unsound", short, why)
		}
	}
	f.note("call abstracted (results unconstrained, no effect on modelled state except pointer-to-scalar arguments): " + short)
	f.nopanicCallee(fn, short, e, env, nil)
	return f.resultsOf(sig, fn.Name())
}

// nopanicCallee: modular no-panic. A function under a `nopanic` contract may only call functions of its own package
// that are expanded in place (their panics are then its own obligations) or that are under a `nopanic` contract
// themselves; anything else could panic without this function's obligations noticing.
func (f *FuncCtx) nopanicCallee(fn *types.Func, short string, e *ast.CallExpr, env *Env, c *FuncContract) {
	if f.C == nil || !f.C.NoPanic || f.spec != nil || env.dead {
		return
	}
	if fn.Pkg() == nil || fn.Pkg() != f.Pkg.Types {
		return
	}
	decl := f.E.declOf(fn)
	if decl == nil || decl.Body == nil {
		return
	}
	if c != nil && (c.NoPanic || c.Recovers) {
		return
	}
	for _, k := range []string{short, fn.Name(), exprStr(ast.Unparen(e.Fun))} {
		if why, ok := f.C.AssumeNoPanic[k]; ok {
			f.note("assumed not to panic (assume-nopanic): " + short + ": " + why)
			return
		}
	}
	if c == nil && fn.Type().(*types.Signature).TypeParams() == nil && fn.Type().(*types.Signature).RecvTypeParams() == nil {
		// a helper without any contract (typically one just extracted from this function): verify it on its own
		// body under an implicit contract `nopanic` + the caller's safety kinds, instead of refusing the call
		key := funcKey(fn)
		id := f.Pkg.PkgPath + "." + key
		if f.E.implDone == nil {
			f.E.implDone = map[string]bool{}
		}
		if !f.E.implDone[id] {
			f.E.implDone[id] = true
			ic := &FuncContract{Key: key, Props: f.C.Props, NoPanic: true, Safe: f.C.Safe, LoopInv: map[int][]Clause{}, LoopMod: map[int][]string{}, CallReq: map[string][]Clause{},
				File: f.C.File, Line: f.C.Line, Unroll: map[int]int{}, After: map[string][]Clause{}, GhostCall: map[string][]Clause{}, RecvAssume: map[string][]Clause{},
				Trusted: []string{"implicit no-panic contract (helper called from " + f.key + ")"}}
			f.E.implicit = append(f.E.implicit, &implicitJob{f.Pkg, f.PC, ic})
		}
		f.note("helper without contract verified under an implicit no-panic contract: " + short)
		return
	}
	f.safeOrd["nopanic.callee"]++
	o := &Obligation{Name: fmt.Sprintf("%s/nopanic.callee.%s#%d", f.key, short, f.safeOrd["nopanic.callee"]), Kind: "nopanic.callee", Fn: f.key, Pkg: f.Pkg.PkgPath,
		Text: "callee " + short + " must be under a nopanic (or recovers) contract, or small enough to be expanded in place", Src: posStr(f.Pkg.Fset, e.Pos()), Props: f.C.Props}
	o.Decided = "sat"
	o.Output = "no-panic rule: " + short + " is declared in this package, is not expanded in place and carries no nopanic contract; a panic inside it would escape this function"
	f.obls = append(f.obls, o)
}

func (f *FuncCtx) zeroResults(sig *types.Signature) []Val {
	var out []Val
	for i := 0; i < sig.Results().Len(); i++ {
		out = append(out, f.freshVal(sig.Results().At(i).Type(), "r"))
	}
	return out
}

func inlinable(d *ast.FuncDecl) bool {
	ok := true
	n := 0
	ast.Inspect(d.Body, func(nd ast.Node) bool {
		switch nd.(type) {
		case *ast.ForStmt, *ast.RangeStmt, *ast.GoStmt, *ast.SelectStmt:
			ok = false
		case ast.Stmt:
			n++
		}
		return ok
	})
	return ok && n <= 40
}

// knownExternal models a few library functions exactly.
func (f *FuncCtx) knownExternal(pkgPath string, fn *types.Func, recv *Val, args []Val, sig *types.Signature, env *Env) ([]Val, bool) {
	name := fn.Name()
	switch pkgPath {
	case "math":
		if f.S.bv && len(args) == 1 {
			switch name {
			case "Ceil":
				return []Val{{T: fmt.Sprintf("(fp.roundToIntegral RTP %s)", args[0].T), Typ: args[0].Typ}}, true
			case "Floor":
				return []Val{{T: fmt.Sprintf("(fp.roundToIntegral RTN %s)", args[0].T), Typ: args[0].Typ}}, true
			case "Round":
				return []Val{{T: fmt.Sprintf("(fp.roundToIntegral RNA %s)", args[0].T), Typ: args[0].Typ}}, true
			case "Trunc":
				return []Val{{T: fmt.Sprintf("(fp.roundToIntegral RTZ %s)", args[0].T), Typ: args[0].Typ}}, true
			}
		}
	case "github.com/obolnetwork/charon/app/errors":
		if name == "Is" && len(args) == 2 {
			// identity on sentinel errors; wrapping is not modelled
			f.note("errors.Is modelled as identity of error values")
			return []Val{f.boolVal(fmt.Sprintf("(= %s %s)", args[0].T, args[1].T))}, true
		}
	case "errors":
		if name == "Is" && len(args) == 2 {
			f.note("errors.Is modelled as identity of error values")
			return []Val{f.boolVal(fmt.Sprintf("(= %s %s)", args[0].T, args[1].T))}, true
		}
	case "bytes":
		if name == "Equal" && len(args) == 2 {
			f.S.declare("bytes_equal", "(declare-fun bytes_equal ((Slice Int) (Slice Int)) Bool)")
			return []Val{f.boolVal(fmt.Sprintf("(bytes_equal %s %s)", args[0].T, args[1].T))}, true
		}
	case "context":
		if recv != nil && name == "Err" {
			// ctx.Err() is modelled as a function of the context value; receiving from ctx.Done() implies it is non-nil
			return f.pureApp("context.Err", sig, recv, args), true
		}
	case "time":
		if recv != nil && sig.Results().Len() == 1 {
			switch name {
			case "Before", "After", "Equal", "Add", "Sub", "IsZero", "Unix", "UnixNano":
				return f.pureApp("time."+name, sig, recv, args), true
			}
		}
	}
	return nil, false
}

// callValue handles calls through function-typed variables / parameters.
func (f *FuncCtx) callValue(text string, fv Val, e *ast.CallExpr, env *Env) []Val {
	sig, ok := fv.Typ.Underlying().(*types.Signature)
	if !ok {
		f.fail("call of non-function %s", text)
		return f.havocResults(e, env)
	}
	args := f.args(sig, e, env)
	f.countCall(text, args, e, env)
	if f.isPure(text) {
		return f.pureApp("var."+text, sig, &fv, args)
	}
	f.note("call through function value abstracted: " + text)
	return f.resultsOf(sig, "cb")
}

func (f *FuncCtx) callFieldFunc(key, text string, fv Val, e *ast.CallExpr, env *Env) []Val {
	sig, ok := fv.Typ.Underlying().(*types.Signature)
	if !ok {
		f.fail("call of non-function field %s", text)
		return f.havocResults(e, env)
	}
	args := f.args(sig, e, env)
	f.countCall(text, args, e, env)
	if f.isPure(key, text) {
		return f.pureApp("field."+key, sig, &fv, args)
	}
	f.note("call through function-typed field abstracted: " + text)
	return f.resultsOf(sig, "cb")
}

// callClosure inlines a function literal.
func (f *FuncCtx) callClosure(c *Closure, e *ast.CallExpr, env *Env) []Val {
	lit := c.Lit.(*ast.FuncLit)
	sig := f.info().TypeOf(lit).(*types.Signature)
	args := f.args(sig, e, env)
	text := exprStr(ast.Unparen(e.Fun))
	f.countCall(text, args, e, env)
	if f.fr.depth > 8 {
		f.fail("closure inlining too deep at %s", text)
		return f.havocResults(e, env)
	}
	fr := &frame{c: nil, pc: f.fr.pc, pkg: f.fr.pkg, sig: sig, scope: f.fr.scope, name: text, depth: f.fr.depth + 1, parent: f.fr, callPos: e.Pos()}
	// loops inside closures use the enclosing function's loop numbering: count loops by position
	return f.inlineBody(fr, lit.Type, nil, lit.Body, sig, nil, args, env)
}

// inlineDecl inlines a declared function of the same package.
func (f *FuncCtx) inlineDecl(fn *types.Func, decl *ast.FuncDecl, c *FuncContract, pc *PkgContracts, recv *Val, args []Val, sig *types.Signature, e *ast.CallExpr, env *Env) []Val {
	if f.fr.depth > 8 {
		f.fail("inlining too deep at %s", fn.Name())
		return f.havocResults(e, env)
	}
	f.note("inlined: " + fn.Name())
	osig := fn.Type().(*types.Signature)
	fr := &frame{c: c, pc: pc, pkg: f.Pkg, sig: osig, scope: decl.Body, name: fn.Name(), depth: f.fr.depth + 1, parent: f.fr, callPos: e.Pos()}
	return f.inlineBody(fr, decl.Type, decl.Recv, decl.Body, osig, recv, args, env)
}

func (f *FuncCtx) inlineBody(fr *frame, ft *ast.FuncType, recvFL *ast.FieldList, body *ast.BlockStmt, sig *types.Signature, recv *Val, args []Val, env *Env) []Val {
	// bind params
	if recvFL != nil && recv != nil && len(recvFL.List) > 0 && len(recvFL.List[0].Names) > 0 {
		if o := f.info().Defs[recvFL.List[0].Names[0]]; o != nil {
			rv := *recv
			// value receiver called on pointer or vice versa
			if _, _, isPtr := ptrStruct(rv.Typ); isPtr {
				if _, _, want := ptrStruct(o.Type()); !want {
					rv = f.loadStruct(rv, env)
				}
			}
			env.vars[o] = rv
		}
	}
	i := 0
	if ft.Params != nil {
		for _, fl := range ft.Params.List {
			if len(fl.Names) == 0 {
				i++
				continue
			}
			for _, nm := range fl.Names {
				if o := f.info().Defs[nm]; o != nil && i < len(args) {
					env.vars[o] = f.name(f.coerce(args[i], o.Type()), nm.Name)
				}
				i++
			}
		}
	}
	// named results
	var resObjs []types.Object
	if ft.Results != nil {
		for _, fl := range ft.Results.List {
			for _, nm := range fl.Names {
				if o := f.info().Defs[nm]; o != nil {
					env.vars[o] = Val{T: f.S.Zero(o.Type()), Typ: o.Type()}
					resObjs = append(resObjs, o)
				}
			}
		}
	}
	fr.results = resObjs
	saved := f.fr
	f.fr = fr
	end := f.block(body.List, env, nil)
	// falling off the end
	if !end.dead {
		if sig.Results().Len() == 0 || len(resObjs) > 0 {
			f.doReturn(nil, end, nil)
		} else {
			end.dead = true
		}
	}
	f.runDefers(fr)
	f.fr = saved
	m := f.merge(fr.rets)
	*env = *m
	var out []Val
	for k := 0; k < sig.Results().Len(); k++ {
		if v, ok := m.names[fmt.Sprintf("$ret%d.%d", fr.depth, k)]; ok {
			out = append(out, v)
			delete(env.names, fmt.Sprintf("$ret%d.%d", fr.depth, k))
		} else {
			out = append(out, Val{T: f.S.Zero(sig.Results().At(k).Type()), Typ: sig.Results().At(k).Type()})
		}
	}
	return out
}

// callContract is the modular call rule.
func (f *FuncCtx) callContract(fn *types.Func, c *FuncContract, pc *PkgContracts, recv *Val, args []Val, sig *types.Signature, e *ast.CallExpr, env *Env, short string) []Val {
	osig := fn.Type().(*types.Signature)
	bound := map[string]Val{}
	if r := osig.Recv(); r != nil && recv != nil {
		rv := *recv
		if _, _, isPtr := ptrStruct(rv.Typ); isPtr {
			if _, _, want := ptrStruct(r.Type()); !want {
				rv = f.loadStruct(rv, env)
			}
		}
		if r.Name() != "" && r.Name() != "_" {
			bound[r.Name()] = rv
		}
	}
	for i := 0; i < osig.Params().Len() && i < len(args); i++ {
		p := osig.Params().At(i)
		if p.Name() != "" && p.Name() != "_" {
			bound[p.Name()] = f.name(args[i], p.Name())
		}
	}
	cpkg := fn.Pkg()
	if pc != nil && pc != f.PC && !f.axiomsDone[pc.Dir] && f.spec == nil {
		// axioms stated in the callee's package travel with its contracts
		f.axiomsDone[pc.Dir] = true
		saved := f.spec
		f.emitAxiomsOf(pc, cpkg, env)
		f.spec = saved
	}
	pre := env.clone()
	f.callOrd[short]++
	ord := f.callOrd[short]
	mk := func(results []Val, old *Env) *specCtx {
		var names []string
		for i := 0; i < osig.Results().Len(); i++ {
			names = append(names, osig.Results().At(i).Name())
		}
		return &specCtx{bound: []map[string]Val{bound}, old: old, pkg: cpkg, pcs: pc, results: results, resNames: names, nolocals: true}
	}
	if f.spec == nil {
		for k, cl := range c.Requires {
			g := f.evalClause(cl, env, mk(nil, pre))
			f.oblige(fmt.Sprintf("call.%s#%d.pre.%d", short, ord, k+1), "call.pre", env, g, cl.Text, fmt.Sprintf("%s:%d", shortPath(cl.File), cl.Line))
		}
	}
	// frame: a callee without an assigns clause must not write module heap (see frameguard.go)
	if !c.HasAssigns && !c.Assumed && f.spec == nil && os.Getenv("GOVC_TEST_NO_FRAMEGUARD") == "" { // the switch exists only to test the call-cover guard on its own
		if w, why := f.E.writesHeap(fn, 0, map[*types.Func]bool{}); w {
			f.fail("callee %s is used through its contract, writes heap (%s) and has no assigns clause", short, why)
		}
	}
	// frame: havoc what the callee assigns
	for _, a := range c.Assigns {
		f.havocPath(a, bound, env, pc, cpkg, e, osig)
	}
	if !c.Pure {
		// the callee (or what it calls) may run a function literal of this function that escaped
		f.havocEscapedCaptures(env)
	}
	// results: uninterpreted functions of the arguments if declared pure, fresh otherwise
	var results []Val
	if c.Pure {
		results = f.pureApp(short, sig, recv, args)
	} else {
		results = f.resultsOf(sig, fn.Name())
	}
	// inside contract expressions the postconditions of a pure callee are unfolded one level only,
	// and never for the function under verification itself (no circular use of its own contract)
	if f.spec == nil {
		f.specDepth++
		for _, cl := range c.Ensures {
			if strings.Contains(cl.Text, "ncalls(") {
				continue // ghost call counters are local to the callee's own body
			}
			usesGhost := false
			for _, gv := range c.GhostVars {
				if regexp.MustCompile(`\b` + regexp.QuoteMeta(gv.Name) + `\b`).MatchString(cl.Text) {
					usesGhost = true // so are the callee's ghost variables
				}
			}
			if usesGhost {
				continue
			}
			// a postcondition that speaks about the callee's local variables (its decoded JSON object, ...) has no
			// reading at the call site: it is not exported (it is still proved on the callee's own body)
			ncerr := len(f.cerrs)
			g := f.evalClause(cl, env, mk(results, pre))
			if f.clauseErr != "" {
				f.cerrs = f.cerrs[:ncerr]
				f.clauseErr = ""
				continue
			}
			f.assume(env, g)
		}
		f.specDepth--
		if len(c.Ensures) > 0 && !c.Assumed {
			f.obligeCallCover(fmt.Sprintf("call-cover.%s#%d", short, ord), pre, env, "the postconditions assumed for "+short+" are consistent with the caller's state at this call")
		}
	}
	if f.spec != nil && c.Pure && len(c.Axiomatic) > 0 {
		f.emitPureAxioms(fn, c, pc, sig, recv, short, cpkg)
	}
	if c.Assumed {
		f.note("assumed contract (body not verified): " + short)
	}
	f.E.usedContract(f.key, short, c)
	return results
}

// emitPureAxioms exports selected postconditions of a pure function (verified for all arguments on its own
// body) as universally quantified axioms, so that they are available where the function is only applied inside
// contract expressions (where postconditions are otherwise not unfolded).
func (f *FuncCtx) emitPureAxioms(fn *types.Func, c *FuncContract, pc *PkgContracts, sig *types.Signature, recv *Val, short string, cpkg *types.Package) {
	key := "pureaxioms:" + short
	if f.specDone[key] {
		return
	}
	f.specDone[key] = true
	osig := fn.Type().(*types.Signature)
	bound := map[string]Val{}
	var qs []string
	var hyps []string
	var rv *Val
	if r := osig.Recv(); r != nil && recv != nil {
		n := "ax!" + sanitize(short) + "!recv"
		v := Val{T: n, Typ: recv.Typ}
		qs = append(qs, fmt.Sprintf("(%s %s)", n, f.sortOfVal(v)))
		hyps = append(hyps, f.typeInv(n, recv.Typ, 0)...)
		if r.Name() != "" && r.Name() != "_" {
			bound[r.Name()] = v
		}
		rv = &v
	}
	var args []Val
	for i := 0; i < sig.Params().Len(); i++ {
		p := sig.Params().At(i)
		n := fmt.Sprintf("ax!%s!%d", sanitize(short), i)
		v := Val{T: n, Typ: p.Type()}
		qs = append(qs, fmt.Sprintf("(%s %s)", n, f.S.SortOf(p.Type())))
		hyps = append(hyps, f.typeInv(n, p.Type(), 0)...)
		name := osig.Params().At(i).Name()
		if name != "" && name != "_" {
			bound[name] = v
		}
		args = append(args, v)
	}
	if len(qs) == 0 {
		return
	}
	results := f.pureApp(short, sig, rv, args)
	var names []string
	for i := 0; i < osig.Results().Len(); i++ {
		names = append(names, osig.Results().At(i).Name())
	}
	empty := &Env{vars: map[types.Object]Val{}, names: map[string]Val{}, heap: map[string]string{}, pc: "true"}
	for _, idx := range c.Axiomatic {
		if idx < 1 || idx > len(c.Ensures) {
			f.fail("axiomatic %d: no such ensures clause in %s", idx, short)
			continue
		}
		cl := c.Ensures[idx-1]
		sc := &specCtx{bound: []map[string]Val{bound}, pkg: cpkg, pcs: pc, results: results, resNames: names, nolocals: true}
		f.noHeap++
		body := f.evalClause(cl, empty, sc)
		f.noHeap--
		if len(hyps) > 0 {
			body = fmt.Sprintf("(=> (and %s) %s)", strings.Join(hyps, " "), body)
		}
		f.S.decls = append(f.S.decls, fmt.Sprintf("(assert (forall (%s) (! %s :pattern (%s))))", strings.Join(qs, " "), body, results[0].T))
		f.note(fmt.Sprintf("postcondition %d of pure %s used as a quantified axiom inside contract expressions (it is proved on the function's own body)", idx, short))
	}
}

// havocPath havocs one 'assigns' target of a callee at a call site.
func (f *FuncCtx) havocPath(path string, bound map[string]Val, env *Env, pc *PkgContracts, cpkg *types.Package, e *ast.CallExpr, osig *types.Signature) {
	pe, err := parseSpec(path)
	if err != nil {
		f.fail("assigns %q: %v", path, err)
		return
	}
	switch p := pe.(type) {
	case *ast.SelectorExpr:
		saved := f.spec
		f.spec = &specCtx{bound: []map[string]Val{bound}, pkg: cpkg, pcs: pc, nolocals: true}
		nerr := len(f.errs)
		base := f.specExpr(p.X, env)
		f.spec = saved
		if len(f.errs) > nerr || base.Typ == nil {
			// the base is a local of the callee (a freshly allocated object): not visible to the caller
			f.errs = f.errs[:nerr]
			return
		}
		if st, el, ok := ptrStruct(base.Typ); ok {
			obj, idx := lookupFieldAnyPkg(base.Typ, p.Sel.Name)
			if obj == nil && p.Sel.Name == "all" {
				// `assigns x.all`: every field of the object (a callee that locks x: other goroutines may have run)
				for i := 0; i < st.NumFields(); i++ {
					fl := st.Field(i)
					h := f.heapName(el, fl)
					nv := f.freshVal(fl.Type(), "hv_"+fl.Name())
					hs := f.heapSort[h]
					env.heap[h] = f.define("H", fmt.Sprintf("(Array %s %s)", hs[0], hs[1]), fmt.Sprintf("(store %s %s %s)", f.heapGet(env, h), base.T, nv.T))
				}
				return
			}
			if obj == nil {
				f.fail("assigns: no field %s", path)
				return
			}
			_ = idx
			fl := obj.(*types.Var)
			h := f.heapName(el, fl)
			nv := f.freshVal(fl.Type(), "hv_"+fl.Name())
			hs := f.heapSort[h]
			env.heap[h] = f.define("H", fmt.Sprintf("(Array %s %s)", hs[0], hs[1]), fmt.Sprintf("(store %s %s %s)", f.heapGet(env, h), base.T, nv.T))
			return
		}
		f.fail("assigns target %s is not a field of a pointer", path)
	case *ast.Ident:
		// parameter with reference semantics (map / slice): write back a fresh value to the argument
		for i := 0; i < osig.Params().Len(); i++ {
			if osig.Params().At(i).Name() == p.Name && i < len(e.Args) {
				pt := osig.Params().At(i).Type()
				if _, isTP := pt.(*types.TypeParam); isTP {
					pt = f.typeOf(e.Args[i])
				}
				nv := f.freshVal(pt, "hv_"+p.Name)
				if f.spec == nil {
					f.assign(e.Args[i], nv, env)
				}
				bound["$post:"+p.Name] = nv
				return
			}
		}
		f.fail("assigns: unknown parameter %s", p.Name)
	default:
		f.fail("unsupported assigns target %s", path)
	}
}

// builtin functions
func (f *FuncCtx) builtin(name string, e *ast.CallExpr, env *Env) []Val {
	ev := func(i int) Val { return f.evalArg(e.Args[i], env) }
	intT := types.Typ[types.Int]
	switch name {
	case "len", "cap":
		x := ev(0)
		if x.Typ == nil {
			f.fail("len of untyped value")
			return []Val{{T: "0", Typ: intT}}
		}
		var t string
		switch u := x.Typ.Underlying().(type) {
		case *types.Slice:
			t = fmt.Sprintf("(s_len %s)", x.T)
			if name == "cap" {
				f.note("cap() modelled as len()")
			}
		case *types.Map:
			t = fmt.Sprintf("(m_card %s)", x.T)
		case *types.Array:
			t = fmt.Sprint(u.Len())
		case *types.Basic:
			t = fmt.Sprintf("(str_len %s)", x.T)
		case *types.Chan:
			f.S.declare("chan_len", "(declare-fun chan_len (Chan) Int)")
			t = fmt.Sprintf("(chan_len %s)", x.T)
		case *types.Pointer:
			if a, ok := u.Elem().Underlying().(*types.Array); ok {
				t = fmt.Sprint(a.Len())
			}
		}
		if t == "" {
			f.fail("len of %s", x.Typ)
			t = "0"
		}
		if f.S.bv {
			f.fail("len() in bv mode unsupported")
		}
		return []Val{{T: t, Typ: intT}}
	case "append":
		s := ev(0)
		st, ok := s.Typ.Underlying().(*types.Slice)
		if s.T == nilMarker || s.Typ == nil {
			t := f.typeOf(e)
			st, ok = t.Underlying().(*types.Slice)
			s = f.coerce(s, t)
		}
		if !ok {
			f.fail("append to non-slice")
			return []Val{s}
		}
		typ := s.Typ
		if e.Ellipsis != token.NoPos {
			t := ev(1)
			if t.Typ != nil && isString(t.Typ) {
				f.note("append(bytes, string...) abstracted")
				return []Val{f.freshVal(typ, "app")}
			}
			t = f.coerce(t, typ)
			s = f.name(s, "s")
			t = f.name(t, "t")
			es := f.S.SortOf(st.Elem())
			na := f.fresh("app", fmt.Sprintf("(Array Int %s)", es))
			f.emit(fmt.Sprintf("(assert (forall ((i!q Int)) (! (= (select %s i!q) (ite (< i!q (s_len %s)) (select (s_arr %s) i!q) (select (s_arr %s) (- i!q (s_len %s))))) :pattern ((select %s i!q)))))", na, s.T, s.T, t.T, s.T, na))
			// forward direction with triggers on the operands, so that facts about elements of s and t transfer
			f.emit(fmt.Sprintf("(assert (forall ((w!q Int)) (! (=> (and (<= 0 w!q) (< w!q (s_len %s))) (= (select %s (+ (s_len %s) w!q)) (select (s_arr %s) w!q))) :pattern ((select (s_arr %s) w!q)))))", t.T, na, s.T, t.T, t.T))
			f.emit(fmt.Sprintf("(assert (forall ((w!q Int)) (! (=> (and (<= 0 w!q) (< w!q (s_len %s))) (= (select %s w!q) (select (s_arr %s) w!q))) :pattern ((select (s_arr %s) w!q)))))", s.T, na, s.T, s.T))
			return []Val{{T: fmt.Sprintf("(mk_slice %s (+ (s_len %s) (s_len %s)) (and (s_nil %s) (= (s_len %s) 0)))", na, s.T, t.T, s.T, t.T), Typ: typ}}
		}
		cur := s
		for i := 1; i < len(e.Args); i++ {
			x := f.coerce(ev(i), st.Elem())
			cur = f.name(cur, "s")
			cur = Val{T: fmt.Sprintf("(mk_slice (store (s_arr %s) (s_len %s) %s) (+ (s_len %s) 1) false)", cur.T, cur.T, x.T, cur.T), Typ: typ}
		}
		return []Val{cur}
	case "make":
		t := f.typeOf(e.Args[0])
		if t == nil {
			t = f.specType(exprStr(e.Args[0]))
		}
		switch u := t.Underlying().(type) {
		case *types.Map:
			return []Val{{T: f.S.Zero(t), Typ: t}}
		case *types.Slice:
			n := "0"
			if len(e.Args) > 1 {
				n = f.coerce(ev(1), intT).T
			}
			es := f.S.SortOf(u.Elem())
			return []Val{{T: fmt.Sprintf("(mk_slice %s %s false)", f.S.constArr("Int", es, f.S.Zero(u.Elem())), n), Typ: t}}
		case *types.Chan:
			return []Val{f.freshVal(t, "chan")}
		}
	case "new":
		t := f.typeOf(e.Args[0])
		pt := types.NewPointer(t)
		if _, _, ok := ptrStruct(pt); ok {
			return []Val{f.newRef(pt, Val{}, env)}
		}
		return []Val{{T: fmt.Sprintf("(some %s)", f.S.Zero(t)), Typ: pt}}
	case "delete":
		m := ev(0)
		mt, ok := m.Typ.Underlying().(*types.Map)
		if !ok {
			f.fail("delete on non-map")
			return nil
		}
		k := f.coerce(ev(1), mt.Key())
		m = f.name(m, "m")
		f.countCall("delete", []Val{m, k}, e, env)
		f.assign(e.Args[0], Val{T: f.mapDelete(m, k, mt), Typ: m.Typ}, env)
		return nil
	case "copy":
		if se, ok := ast.Unparen(e.Args[0]).(*ast.SliceExpr); ok && !se.Slice3 {
			// copy(x[lo:hi], src): the destination is a window of x
			base := f.expr(se.X, env)
			if arr, isArr := base.Typ.Underlying().(*types.Array); isArr && !f.S.bv {
				if n, isB := byteArray(arr); isB {
					if st, isSl := f.typeOf(e.Args[1]).Underlying().(*types.Slice); isSl && isByte(st.Elem()) {
						srt := f.S.SortOf(base.Typ)
						lo, hi := "0", fmt.Sprint(n)
						if se.Low != nil {
							lo = f.coerce(f.expr(se.Low, env), intT).T
						}
						if se.High != nil {
							hi = f.coerce(f.expr(se.High, env), intT).T
						}
						src := f.name(ev(1), "src")
						cnt := f.define("ncopy", "Int", fmt.Sprintf("(ite (< (- %s %s) (s_len %s)) (- %s %s) (s_len %s))", hi, lo, src.T, hi, lo, src.T))
						na := f.fresh("copied", srt)
						f.emit(fmt.Sprintf("(assert (forall ((i!c Int)) (! (=> (and (<= 0 i!c) (< i!c %d)) (= (at_%s %s i!c) (ite (and (<= %s i!c) (< i!c (+ %s %s))) (select (s_arr %s) (- i!c %s)) (at_%s %s i!c)))) :pattern ((at_%s %s i!c)))))",
							n, srt, na, lo, lo, cnt, src.T, lo, srt, base.T, srt, na))
						f.assign(se.X, Val{T: na, Typ: base.Typ}, env)
						return []Val{{T: cnt, Typ: intT}}
					}
				}
			}
			f.note("copy() into a window abstracted: the whole destination object is havocked")
			f.assign(se.X, f.freshVal(base.Typ, "copy"), env)
			return []Val{f.freshVal(intT, "n")}
		}
		f.note("copy() abstracted: destination havocked")
		d := ev(0)
		f.assign(e.Args[0], f.freshVal(d.Typ, "copy"), env)
		return []Val{f.freshVal(intT, "n")}
	case "panic":
		f.doPanic(e, env)
		return nil
	case "min", "max":
		a := ev(0)
		for i := 1; i < len(e.Args); i++ {
			b := ev(i)
			if a.Typ == nil {
				a = f.coerce(a, b.Typ)
			}
			b = f.coerce(b, a.Typ)
			op := token.LSS
			if name == "max" {
				op = token.GTR
			}
			c, _ := f.cmp(op, a, b)
			a = Val{T: fmt.Sprintf("(ite %s %s %s)", c, a.T, b.T), Typ: a.Typ}
		}
		return []Val{a}
	case "close":
		f.note("close(ch) abstracted")
		f.countCall("close", []Val{ev(0)}, e, env)
		return nil
	case "recover":
		return []Val{{T: f.S.Zero(types.NewInterfaceType(nil, nil)), Typ: types.NewInterfaceType(nil, nil)}}
	case "print", "println":
		return nil
	case "clear":
		x := ev(0)
		f.assign(e.Args[0], Val{T: f.S.Zero(x.Typ), Typ: x.Typ}, env)
		return nil
	}
	f.fail("unsupported builtin %s", name)
	return f.havocResults(e, env)
}

func (f *FuncCtx) doPanic(e *ast.CallExpr, env *Env) {
	if f.C != nil && f.C.NoPanic && f.fr != nil {
		f.safeOrd["panic"]++
		msg := ""
		if len(e.Args) > 0 {
			msg = exprStr(e.Args[0])
		}
		f.oblige(fmt.Sprintf("unreachable.panic#%d", f.safeOrd["panic"]), "unreachable.panic", env, "false", "panic("+msg+") must be unreachable", posStr(f.Pkg.Fset, e.Pos()))
	}
	env.dead = true
	env.pc = "false"
}


// lockAcquire models acquiring a mutex: the state it guards may have been changed by other goroutines
// since it was last observed, so every mutable field of the guarded object is havocked (thread-modular
// reasoning: inside the critical section only the type invariant is known about shared state).
// old(...) refers to the state right after the first acquisition.
func (f *FuncCtx) lockAcquire(recvExpr ast.Expr, env *Env) {
	recvExpr = ast.Unparen(recvExpr)
	var base ast.Expr
	if t := f.typeOf(recvExpr); t != nil {
		if n := namedOf(t); n != nil && n.Obj().Pkg() != nil && n.Obj().Pkg().Path() == "sync" {
			if sel, ok := recvExpr.(*ast.SelectorExpr); ok {
				base = sel.X
			}
		} else {
			base = recvExpr // embedded mutex
		}
	}
	if base == nil {
		return
	}
	bt := f.typeOf(base)
	if bt == nil {
		return
	}
	mut := f.E.mutableFields(f.Pkg)
	if st, el, ok := ptrStruct(bt); ok {
		bv := f.expr(base, env)
		for i := 0; i < st.NumFields(); i++ {
			fl := st.Field(i)
			if !mut[fl] {
				continue
			}
			h := f.heapName(el, fl)
			hs := f.heapSort[h]
			nv := f.freshVal(fl.Type(), "lk_"+fl.Name())
			env.heap[h] = f.define("H_"+fl.Name(), fmt.Sprintf("(Array %s %s)", hs[0], hs[1]), fmt.Sprintf("(store %s %s %s)", f.heapGet(env, h), bv.T, nv.T))
		}
	} else if _, ok := bt.Underlying().(*types.Struct); ok {
		// struct value with embedded mutex held in a field: havoc that field
		if sel, ok := base.(*ast.SelectorExpr); ok {
			if obj, _, _ := types.LookupFieldOrMethod(f.typeOf(sel.X), true, f.Pkg.Types, sel.Sel.Name); obj != nil {
				if fl, ok := obj.(*types.Var); ok {
					f.assign(base, f.freshVal(fl.Type(), "lk_"+fl.Name()), env)
				}
			}
		}
	}
	f.note("mutex acquisition: mutable fields of the guarded object havocked (other goroutines may have run)")
	if f.fr != nil && f.fr.depth == 0 && !f.locked {
		f.locked = true
		// re-assume the type invariant and requires that mention the guarded state, then re-base old()
		if f.relock != nil {
			f.relock(env)
		}
		f.entry = env.clone()
	}
}


// ghostAssign executes 'g = e' or 'g[k] = e' on a ghost variable.
func (f *FuncCtx) ghostAssign(cl Clause, bound map[string]Val, at ast.Node, env *Env) {
	i := indexTop(cl.Text, "=")
	for i >= 0 && i+1 < len(cl.Text) && (cl.Text[i+1] == '=' || (i > 0 && strings.ContainsRune("!<>=", rune(cl.Text[i-1])))) {
		j := indexTop(cl.Text[i+2:], "=")
		if j < 0 {
			i = -1
			break
		}
		i = i + 2 + j
	}
	if i < 0 {
		f.fail("ghostcall %q: expected 'lhs = rhs'", cl.Text)
		return
	}
	lhsT, rhsT := strings.TrimSpace(cl.Text[:i]), strings.TrimSpace(cl.Text[i+1:])
	gpos, gfr := at.Pos(), f.fr
	for x := f.fr; x != nil && x.depth > 0; x = x.parent {
		gpos = x.callPos
		gfr = x.parent
	}
	sc := &specCtx{bound: []map[string]Val{bound}, old: f.entry, pos: gpos, scope: gfr.scope, pcs: f.PC}
	rhs := f.evalClauseVal(Clause{Text: rhsT, Line: cl.Line, File: cl.File}, env, sc)
	name, keyT := lhsT, ""
	if k := strings.Index(lhsT, "["); k > 0 && strings.HasSuffix(lhsT, "]") {
		name, keyT = strings.TrimSpace(lhsT[:k]), lhsT[k+1:len(lhsT)-1]
	}
	g, ok := env.names["$g:"+name]
	if !ok {
		f.fail("ghostcall: unknown ghost variable %s", name)
		return
	}
	if keyT == "" {
		env.names["$g:"+name] = f.name(f.coerce(rhs, g.Typ), name)
		return
	}
	mt, ok := g.Typ.Underlying().(*types.Map)
	if !ok {
		f.fail("ghostcall: %s is not a map", name)
		return
	}
	k := f.coerce(f.evalClauseVal(Clause{Text: keyT, Line: cl.Line, File: cl.File}, env, sc), mt.Key())
	saved := f.spec
	f.spec = nil
	nv := Val{T: f.mapStore(f.name(g, name), k, f.coerce(rhs, mt.Elem())), Typ: g.Typ}
	env.names["$g:"+name] = f.name(nv, name)
	f.spec = saved
}


// havocPointerArgs havocs variables whose address (pointer to a non-struct value) is passed to an abstracted call.
func (f *FuncCtx) havocPointerArgs(e *ast.CallExpr, env *Env) {
	if f.spec != nil {
		return
	}
	for _, a := range e.Args {
		a = ast.Unparen(a)
		if u, ok := a.(*ast.UnaryExpr); ok && u.Op == token.AND {
			if id, ok := ast.Unparen(u.X).(*ast.Ident); ok {
				if o := f.info().ObjectOf(id); o != nil {
					if _, isStruct := o.Type().Underlying().(*types.Struct); !isStruct || true {
						if v, ok := env.vars[o]; ok && v.Clo == nil {
							env.vars[o] = f.freshVal(o.Type(), id.Name)
						}
					}
				}
			}
			continue
		}
		if id, ok := a.(*ast.Ident); ok {
			if o := f.info().ObjectOf(id); o != nil {
				if p, ok := o.Type().Underlying().(*types.Pointer); ok {
					if _, _, isStructPtr := ptrStruct(o.Type()); !isStructPtr {
						if v, ok := env.vars[o]; ok && v.Clo == nil {
							nv := f.freshVal(p.Elem(), id.Name)
							env.vars[o] = Val{T: fmt.Sprintf("(some %s)", nv.T), Typ: o.Type()}
						}
					}
				}
			}
		}
	}
}
