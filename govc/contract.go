package main

import (
	"bufio"
	"fmt"
	"os"
	"path/filepath"
	"regexp"
	"strconv"
	"strings"
)

// Clause is one contract clause with its source text.
type Clause struct {
	Text string
	Line int
	File string
}

// FuncContract is the contract of one function.
type FuncContract struct {
	Key        string // "Name" or "Recv.Name" (or "pkg.Name" for assumed externals)
	Props      []string
	Requires   []Clause
	Ensures    []Clause
	LoopInv    map[int][]Clause // loop ordinal (1-based, pre-order) -> invariants
	LoopRet    map[int][]Clause // loop ordinal -> clauses every return executed inside that loop must satisfy (r0, r1, ... = returned values)
	LoopBrk    map[int][]Clause // loop ordinal -> clauses every break out of that loop must satisfy (`false`: the loop is only left through its condition or a return)
	LoopMod    map[int][]string // extra havoc targets
	Alias      map[string][]string // names.go: recorded local name -> new names tried where the recorded one is not in scope
	renameMap  map[string]string // names.go: the renames applied to this contract (recorded -> current)
	UnrenameText [][2]string // names.go: (current callee text, recorded callee name) for calls that now go through an indexed function value
	SiteMap    map[string]int // names.go: current "callee#m" -> recorded site ordinal n whose stepping stones apply there (statements reordered)
	LoopUnperm map[int]int // names.go: current loop ordinal -> recorded ordinal (independent loops reordered)
	Unrename   map[string]string // names.go: current identifier -> identifier the contract was written with
	NoPanic    bool
	AssumeNoPanic map[string]string // callee -> reason: taken not to panic when called from this nopanic function
	Recovers   bool // every panic raised while the body runs is caught by a deferred recover of this function (structural rule)
	Inline     bool
	Assumed    bool // assume-contract: body not verified
	Mode       string
	Assigns    []string
	HasAssigns bool
	FreshArgs  [][2]string // fresharg callee k[.field]: that argument of every such call is storage this function owns
	ReadOnly   []string // readonly p: the function never writes into the backing storage of slice parameter p
	CallReq    map[string][]Clause // callee text -> required condition at each such call
	Asserts    []Clause
	Ghost      []string // ghost var declarations "name Type"
	Pure       bool     // function itself is pure: may be used in specs through its contract (uninterpreted + ensures)
	Canary     []Clause // must-fail ensures (vacuity guard)
	Trusted    []string // free-text trust notes
	File       string
	Line       int
	Havoc      []string // callee texts whose calls are explicitly abstracted (results havocked, no effect)
	Atomic     bool
	Unroll     map[int]int
	Safe       map[string]bool
	Axiomatic  []int        // 1-based indices of ensures clauses exported as quantified axioms where the (pure) function is applied inside contract expressions
	SpineStrict map[int]bool // newspine rK: as freshspine, but the container must be newly allocated (not an argument either): the caller's storage is never written or handed back
	Spine      map[int]bool // freshspine rK: only the container of the K-th result must be newly allocated
	FreshField map[int]string // fresh rK.Field: the claim is about that field of the K-th (struct) result only
	Fresh      map[int]bool // result indices claimed to share no memory with inputs (ownership rule)
	GhostVars  []SpecParam         // ghost variables: name, Go type
	GhostCall  map[string][]Clause // callee text -> ghost assignments 'lhs = rhs' executed at each such call (after its callreq)
	RecvAssume map[string][]Clause // channel expression text -> assumption about every value received from it (a1)
	After      map[string][]Clause // callee text -> stepping-stone assertions proved and then assumed after the statement containing the call
}

// SpecFunc is a pure specification function.
type SpecFunc struct {
	Name   string
	Params []SpecParam
	Ret    string
	Body   string // empty -> uninterpreted
	Opaque bool   // declared function + definitional axiom with a pattern (heap-free body), never a macro
	Line   int
	File   string
}
type SpecParam struct{ Name, Type string }

// PkgContracts is everything declared in one verif_contracts.go.
type PkgContracts struct {
	Dir        string
	File       string
	Funcs      map[string]*FuncContract
	Order      []string
	Pure       map[string]bool // "Type.Method" or "Type.Field" (func-typed field) or "pkg.Func"
	Specs      []*SpecFunc
	Axioms     []Clause
	AxiomNames []string
	Lemmas     []Clause
	LemmaNames []string
	LemmaProps [][]string
	TypeScope  string // function whose scope resolves spec types (for generic packages)
	Invariants map[string][]Clause
	NonNil     map[string]bool
	FreshCalls map[string]bool // callee texts whose results are assumed fresh by the ownership rule (e.g. decoded beacon API responses)
}

var reFunc = regexp.MustCompile(`^func\s+(?:\(\s*(?:\w+\s+)?\*?([\w.]+)(?:\[[^\]]*\])?\s*\)\s*)?([\w./$*]+)\s*$`)
var reSpec = regexp.MustCompile(`^spec\s+(?:opaque\s+)?func\s+(\w+)\s*\(([^)]*)\)\s*([^=]*?)\s*(?:=\s*(.*))?$`)

// ParseContracts reads <dir>/verif_contracts.go (and verif_contracts_*.go).
func ParseContracts(dir string) (*PkgContracts, error) {
	pc := &PkgContracts{Dir: dir, Funcs: map[string]*FuncContract{}, Pure: map[string]bool{}, Invariants: map[string][]Clause{}, NonNil: map[string]bool{}}
	files, _ := filepath.Glob(filepath.Join(dir, "verif_contracts*.go"))
	for _, f := range files {
		if err := pc.parseFile(f); err != nil {
			return nil, err
		}
	}
	return pc, nil
}

func (pc *PkgContracts) parseFile(path string) error {
	fh, err := os.Open(path)
	if err != nil {
		return err
	}
	defer fh.Close()
	pc.File = path
	sc := bufio.NewScanner(fh)
	sc.Buffer(make([]byte, 1<<20), 1<<20)
	var cur *FuncContract
	// logical lines: "//@ x" starts, "//@+ x" continues
	type ll struct {
		text string
		line int
	}
	var lines []ll
	n := 0
	for sc.Scan() {
		n++
		t := strings.TrimSpace(sc.Text())
		if strings.HasPrefix(t, "//@+") {
			if len(lines) == 0 {
				return fmt.Errorf("%s:%d: continuation without clause", path, n)
			}
			lines[len(lines)-1].text += " " + strings.TrimSpace(t[4:])
			continue
		}
		if strings.HasPrefix(t, "//@") {
			lines = append(lines, ll{strings.TrimSpace(t[3:]), n})
		}
	}
	for _, l := range lines {
		t := l.text
		if i := strings.Index(t, " //"); i >= 0 { // trailing comment
			t = strings.TrimSpace(t[:i])
		}
		if t == "" {
			continue
		}
		word, rest := t, ""
		if i := strings.IndexAny(t, " \t"); i >= 0 {
			word, rest = t[:i], strings.TrimSpace(t[i+1:])
		}
		cl := Clause{Text: rest, Line: l.line, File: path}
		switch word {
		case "func":
			m := reFunc.FindStringSubmatch(t)
			if m == nil {
				return fmt.Errorf("%s:%d: bad func header %q", path, l.line, t)
			}
			key := m[2]
			if m[1] != "" {
				key = m[1] + "." + m[2]
			}
			if _, dup := pc.Funcs[key]; dup {
				return fmt.Errorf("%s:%d: duplicate contract for %s", path, l.line, key)
			}
			cur = &FuncContract{Key: key, LoopInv: map[int][]Clause{}, LoopMod: map[int][]string{}, CallReq: map[string][]Clause{}, File: path, Line: l.line, Unroll: map[int]int{}, Safe: map[string]bool{}, After: map[string][]Clause{}, GhostCall: map[string][]Clause{}, RecvAssume: map[string][]Clause{}}
			pc.Funcs[key] = cur
			pc.Order = append(pc.Order, key)
		case "spec":
			m := reSpec.FindStringSubmatch(t)
			if m == nil {
				return fmt.Errorf("%s:%d: bad spec func %q", path, l.line, t)
			}
			sf := &SpecFunc{Name: m[1], Ret: strings.TrimSpace(m[3]), Body: strings.TrimSpace(m[4]), Line: l.line, File: path}
			sf.Opaque = strings.HasPrefix(strings.TrimSpace(strings.TrimPrefix(t, "spec")), "opaque")
			for _, p := range splitTop(m[2], ',') {
				p = strings.TrimSpace(p)
				if p == "" {
					continue
				}
				i := strings.IndexAny(p, " \t")
				if i < 0 {
					return fmt.Errorf("%s:%d: bad spec param %q", path, l.line, p)
				}
				sf.Params = append(sf.Params, SpecParam{p[:i], strings.TrimSpace(p[i+1:])})
			}
			pc.Specs = append(pc.Specs, sf)
			cur = nil
		case "pure":
			if cur != nil && rest == "" {
				cur.Pure = true
				continue
			}
			for _, p := range strings.FieldsFunc(rest, func(r rune) bool { return r == ',' || r == ' ' }) {
				pc.Pure[p] = true
			}
		case "freshcalls":
			if pc.FreshCalls == nil {
				pc.FreshCalls = map[string]bool{}
			}
			for _, p := range strings.FieldsFunc(rest, func(r rune) bool { return r == ',' || r == ' ' }) {
				pc.FreshCalls[p] = true
			}
		case "nonnil":
			for _, p := range strings.FieldsFunc(rest, func(r rune) bool { return r == ',' || r == ' ' }) {
				pc.NonNil[p] = true
			}
		case "typescope":
			pc.TypeScope = rest
		case "axiom":
			name, body := splitName(rest)
			pc.Axioms = append(pc.Axioms, Clause{Text: body, Line: l.line, File: path})
			pc.AxiomNames = append(pc.AxiomNames, name)
			cur = nil
		case "lemma":
			name, body := splitName(rest)
			var props []string
			if strings.HasPrefix(body, "[") {
				if j := strings.Index(body, "]"); j > 0 {
					props = strings.Fields(body[1:j])
					body = strings.TrimSpace(body[j+1:])
				}
			}
			pc.Lemmas = append(pc.Lemmas, Clause{Text: body, Line: l.line, File: path})
			pc.LemmaNames = append(pc.LemmaNames, name)
			pc.LemmaProps = append(pc.LemmaProps, props)
			cur = nil
		case "invariant":
			name, body := splitName(rest)
			pc.Invariants[name] = append(pc.Invariants[name], Clause{Text: body, Line: l.line, File: path})
		default:
			if cur == nil {
				return fmt.Errorf("%s:%d: clause %q outside a func block", path, l.line, word)
			}
			switch word {
			case "props":
				cur.Props = strings.Fields(rest)
			case "requires":
				cur.Requires = append(cur.Requires, cl)
			case "ensures":
				cur.Ensures = append(cur.Ensures, cl)
			case "canary":
				cur.Canary = append(cur.Canary, cl)
			case "assert":
				cur.Asserts = append(cur.Asserts, cl)
			case "loop":
				// loop N invariant e | loop N return e | loop N modifies a, b | loop N unroll k
				parts := strings.SplitN(rest, " ", 3)
				if len(parts) < 3 {
					return fmt.Errorf("%s:%d: bad loop clause", path, l.line)
				}
				k, err := strconv.Atoi(parts[0])
				if err != nil {
					return fmt.Errorf("%s:%d: bad loop ordinal", path, l.line)
				}
				switch parts[1] {
				case "invariant":
					cur.LoopInv[k] = append(cur.LoopInv[k], Clause{Text: parts[2], Line: l.line, File: path})
				case "return":
					if cur.LoopRet == nil {
						cur.LoopRet = map[int][]Clause{}
					}
					cur.LoopRet[k] = append(cur.LoopRet[k], Clause{Text: parts[2], Line: l.line, File: path})
				case "break":
					if cur.LoopBrk == nil {
						cur.LoopBrk = map[int][]Clause{}
					}
					cur.LoopBrk[k] = append(cur.LoopBrk[k], Clause{Text: parts[2], Line: l.line, File: path})
				case "modifies":
					for _, v := range strings.Split(parts[2], ",") {
						cur.LoopMod[k] = append(cur.LoopMod[k], strings.TrimSpace(v))
					}
				case "unroll":
					u, _ := strconv.Atoi(strings.TrimSpace(parts[2]))
					cur.Unroll[k] = u
				default:
					return fmt.Errorf("%s:%d: bad loop clause kind %q", path, l.line, parts[1])
				}
			case "nopanic":
				cur.NoPanic = true
			case "recovers":
				cur.Recovers = true
			case "assume-nopanic":
				// assume-nopanic <callee>: <reason>  -- the named callee is taken not to panic in this context (recorded as an assumption)
				i := strings.Index(rest, ":")
				if i < 0 {
					return fmt.Errorf("%s:%d: assume-nopanic needs 'callee: reason'", path, l.line)
				}
				if cur.AssumeNoPanic == nil {
					cur.AssumeNoPanic = map[string]string{}
				}
				cur.AssumeNoPanic[strings.TrimSpace(rest[:i])] = strings.TrimSpace(rest[i+1:])
			case "safe":
				for _, k := range strings.FieldsFunc(rest, func(r rune) bool { return r == ',' || r == ' ' }) {
					cur.Safe[k] = true
				}
			case "inline":
				cur.Inline = true
			case "axiomatic":
				for _, k := range strings.FieldsFunc(rest, func(r rune) bool { return r == ',' || r == ' ' }) {
					var idx int
					if _, err := fmt.Sscanf(k, "%d", &idx); err != nil || idx < 1 {
						return fmt.Errorf("%s:%d: axiomatic wants ensures indices, got %q", path, l.line, k)
					}
					cur.Axiomatic = append(cur.Axiomatic, idx)
				}
			case "fresh", "freshspine", "newspine":
				for _, k := range strings.FieldsFunc(rest, func(r rune) bool { return r == ',' || r == ' ' }) {
					idx := 0
					field := ""
					if i := strings.Index(k, "."); i > 0 {
						k, field = k[:i], k[i+1:]
					}
					if k != "result" {
						if _, err := fmt.Sscanf(k, "r%d", &idx); err != nil {
							return fmt.Errorf("%s:%d: fresh wants result or rN, got %q", path, l.line, k)
						}
					}
					if word == "freshspine" || word == "newspine" {
						if cur.Spine == nil {
							cur.Spine = map[int]bool{}
						}
						cur.Spine[idx] = true
						if word == "newspine" {
							if cur.SpineStrict == nil {
								cur.SpineStrict = map[int]bool{}
							}
							cur.SpineStrict[idx] = true
						}
						continue
					}
					if cur.Fresh == nil {
						cur.Fresh = map[int]bool{}
					}
					cur.Fresh[idx] = true
					if field != "" {
						if cur.FreshField == nil {
							cur.FreshField = map[int]string{}
						}
						cur.FreshField[idx] = field
					}
				}
			case "fresharg":
				// fresharg <callee> <k>[.field]
				parts := strings.Fields(rest)
				if len(parts) != 2 {
					return fmt.Errorf("%s:%d: fresharg wants '<callee> <k>[.field]'", path, l.line)
				}
				cur.FreshArgs = append(cur.FreshArgs, [2]string{parts[0], parts[1]})
			case "readonly":
				for _, k := range strings.FieldsFunc(rest, func(r rune) bool { return r == ',' || r == ' ' }) {
					cur.ReadOnly = append(cur.ReadOnly, k)
				}
			case "atomic":
				cur.Atomic = true
			case "assume-contract":
				cur.Assumed = true
				if rest != "" {
					cur.Trusted = append(cur.Trusted, rest)
				}
			case "trusted":
				cur.Trusted = append(cur.Trusted, rest)
			case "mode":
				cur.Mode = rest
			case "assigns":
				cur.HasAssigns = true
				for _, v := range strings.Split(rest, ",") {
					if v = strings.TrimSpace(v); v != "" && v != "nothing" {
						cur.Assigns = append(cur.Assigns, v)
					}
				}
			case "callreq":
				i := strings.Index(rest, ":")
				if i < 0 {
					return fmt.Errorf("%s:%d: callreq needs 'callee: expr'", path, l.line)
				}
				cal := strings.TrimSpace(rest[:i])
				cur.CallReq[cal] = append(cur.CallReq[cal], Clause{Text: strings.TrimSpace(rest[i+1:]), Line: l.line, File: path})
			case "after":
				i := strings.Index(rest, ":")
				if i < 0 {
					return fmt.Errorf("%s:%d: after needs 'callee: expr'", path, l.line)
				}
				cal := strings.TrimSpace(rest[:i])
				cur.After[cal] = append(cur.After[cal], Clause{Text: strings.TrimSpace(rest[i+1:]), Line: l.line, File: path})
			case "havoc":
				for _, v := range strings.Split(rest, ",") {
					cur.Havoc = append(cur.Havoc, strings.TrimSpace(v))
				}
			case "ghost":
				i := strings.IndexAny(rest, " \t")
				if i < 0 {
					return fmt.Errorf("%s:%d: ghost needs 'name type'", path, l.line)
				}
				cur.GhostVars = append(cur.GhostVars, SpecParam{rest[:i], strings.TrimSpace(rest[i+1:])})
			case "ghostcall", "recvassume", "ghostafter":
				i := strings.Index(rest, ":")
				if i < 0 {
					return fmt.Errorf("%s:%d: %s needs 'target: text'", path, l.line, word)
				}
				tgt := strings.TrimSpace(rest[:i])
				c := Clause{Text: strings.TrimSpace(rest[i+1:]), Line: l.line, File: path}
				if word == "ghostcall" {
					cur.GhostCall[tgt] = append(cur.GhostCall[tgt], c)
				} else if word == "ghostafter" {
					// executed after the statement containing the call (its results are in scope)
					cur.GhostCall["after:"+tgt] = append(cur.GhostCall["after:"+tgt], c)
				} else {
					cur.RecvAssume[tgt] = append(cur.RecvAssume[tgt], c)
				}
			default:
				return fmt.Errorf("%s:%d: unknown clause %q", path, l.line, word)
			}
		}
	}
	return nil
}

func splitName(s string) (string, string) {
	i := strings.Index(s, ":")
	if i < 0 {
		return "", s
	}
	return strings.TrimSpace(s[:i]), strings.TrimSpace(s[i+1:])
}

// splitTop splits s at top-level occurrences of sep (not inside (), [], {} or quotes).
func splitTop(s string, sep byte) []string {
	var out []string
	depth := 0
	start := 0
	inStr := false
	for i := 0; i < len(s); i++ {
		c := s[i]
		if inStr {
			if c == '\\' {
				i++
			} else if c == '"' {
				inStr = false
			}
			continue
		}
		switch c {
		case '"':
			inStr = true
		case '(', '[', '{':
			depth++
		case ')', ']', '}':
			depth--
		default:
			if c == sep && depth == 0 {
				out = append(out, s[start:i])
				start = i + 1
			}
		}
	}
	out = append(out, s[start:])
	return out
}

// splitTopStr splits at the first/last top-level occurrence of a multi-char operator.
func indexTop(s, op string) int {
	depth := 0
	inStr := false
	for i := 0; i+len(op) <= len(s); i++ {
		c := s[i]
		if inStr {
			if c == '\\' {
				i++
			} else if c == '"' {
				inStr = false
			}
			continue
		}
		switch c {
		case '"':
			inStr = true
		case '(', '[', '{':
			depth++
		case ')', ']', '}':
			depth--
		}
		if depth == 0 && strings.HasPrefix(s[i:], op) {
			return i
		}
	}
	return -1
}
