package main

import (
	"encoding/json"
	"flag"
	"fmt"
	"os"
	"path/filepath"
	"sort"
	"strconv"
	"strings"
	"time"
)

// PropCfg is the per-property configuration (/verif/props.json).
type PropCfg struct {
	Packages   []string `json:"packages"`
	NotDecided []string `json:"not_decided"`
	Assumptions []string `json:"assumptions"`
	Bounded    []BoundedCfg `json:"bounded"`
}

type BoundedCfg struct {
	Name string `json:"name"`
	Cmd  string `json:"cmd"`
	Tier string `json:"tier"`
}

type LedgerEntry struct {
	Name   string `json:"name"`
	Expect string `json:"expect"` // unsat | sat
}

// Ledger lists the obligations that discharge on the unchanged tree (claimed) and those that are
// generated but not discharged there (never claimed; listed so that a NEW failing obligation is noticed).
type Ledger struct {
	Proved   []LedgerEntry `json:"proved"`
	Unproved []string      `json:"unproved"`
}

type KnownFinding struct {
	Kind       string `json:"kind"` // known | fixed
	Property   string `json:"property"`
	Obligation string `json:"obligation"`
	What       string `json:"what"`
	Commit     string `json:"commit,omitempty"`
	Witness    string `json:"witness,omitempty"`
}

func verifRoot() string {
	if v := os.Getenv("VERIF_ROOT"); v != "" {
		return v
	}
	return "/verif"
}

func main() {
	os.Setenv("PATH", "/opt/veriftools/go1.26.8/bin:"+os.Getenv("PATH"))
	os.Setenv("GOTOOLCHAIN", "local")
	os.Setenv("GOFLAGS", "-mod=mod")
	os.Setenv("GOPROXY", "off")
	os.Setenv("GOSUMDB", "off")
	if len(os.Args) < 2 {
		fmt.Fprintln(os.Stderr, "usage: govc run|check|ledger ...")
		os.Exit(2)
	}
	switch os.Args[1] {
	case "run":
		cmdRun(os.Args[2:])
	case "check":
		cmdCheck(os.Args[2:], false)
	case "ledger":
		cmdCheck(os.Args[2:], true)
	case "names":
		cmdNames(os.Args[2:])
	default:
		fmt.Fprintln(os.Stderr, "unknown command", os.Args[1])
		os.Exit(2)
	}
}

func scratchDir() string {
	base := os.Getenv("VERIF_SCRATCH")
	if base == "" {
		base = "/var/tmp"
	}
	d, err := os.MkdirTemp(base, "govc-")
	if err != nil {
		panic(err)
	}
	return d
}

// gather generates obligations for packages, filtered by property and function.
func gather(E *Engine, patterns []string, prop, only string) ([]*FuncResult, error) {
	if err := E.Load(patterns); err != nil {
		return nil, err
	}
	var paths []string
	for p := range E.pkgs {
		paths = append(paths, p)
	}
	sort.Strings(paths)
	var out []*FuncResult
	for _, pp := range paths {
		p := E.pkgs[pp]
		pc := E.contractsOf(pp)
		if pc == nil {
			continue
		}
		for _, key := range pc.Order {
			c := pc.Funcs[key]
			if c.Assumed || strings.Contains(key, "/") {
				continue
			}
			if only != "" && key != only {
				continue
			}
			if prop != "" && !contains(c.Props, prop) {
				continue
			}
			if c.Inline && len(c.Ensures) == 0 && len(c.Requires) == 0 {
				continue
			}
			// external assumed contracts are keyed pkg.Name: skip those with a dot prefix that is an imported package name
			if isExternalKey(E, p.PkgPath, key) {
				continue
			}
			out = append(out, E.VerifyFunc(p, pc, c))
		}
		// helpers queued by the modular no-panic rule (may queue further helpers)
		for len(E.implicit) > 0 {
			job := E.implicit[0]
			E.implicit = E.implicit[1:]
			out = append(out, E.VerifyFunc(job.p, job.pc, job.c))
		}
		if only == "" || only == "lemmas" {
			lr := E.VerifyLemmas(p, pc, prop)
			if len(lr.Obls) > 0 {
				out = append(out, lr)
			}
		}
	}
	return out, nil
}

func isExternalKey(E *Engine, pkgPath, key string) bool {
	i := strings.Index(key, ".")
	if i < 0 {
		return false
	}
	p := E.pkgs[pkgPath]
	if p == nil {
		return false
	}
	// a type of this package?
	if p.Types.Scope().Lookup(key[:i]) != nil {
		return false
	}
	return true
}

func cmdRun(args []string) {
	fs := flag.NewFlagSet("run", flag.ExitOnError)
	pkgs := fs.String("pkgs", "", "comma separated package patterns")
	only := fs.String("func", "", "only this function key")
	prop := fs.String("prop", "", "only functions tagged with this property")
	timeout := fs.Int("timeout", 10, "per-obligation timeout (s)")
	dump := fs.String("dump", "", "directory to keep SMT files")
	repo := fs.String("repo", "/repo", "repository root")
	verbose := fs.Bool("v", false, "verbose")
	mut := fs.String("mut", "", "in-memory mutation: relpath::old::new (first occurrence)")
	_ = fs.Parse(args)
	E := NewEngine(*repo)
	E.names = loadNames(verifRoot())
	if *mut != "" {
		parts := strings.SplitN(*mut, "::", 3)
		path := filepath.Join(*repo, parts[0])
		src, err := os.ReadFile(path)
		if err != nil || len(parts) != 3 || !strings.Contains(string(src), parts[1]) {
			fmt.Fprintln(os.Stderr, "bad mutation: pattern not found")
			os.Exit(3)
		}
		E.overlay = map[string][]byte{path: []byte(strings.Replace(string(src), parts[1], parts[2], 1))}
	}
	t0 := time.Now()
	frs, err := gather(E, strings.Split(*pkgs, ","), *prop, *only)
	if err != nil {
		fmt.Fprintln(os.Stderr, "load error:", err)
		os.Exit(3)
	}
	fmt.Printf("generated in %.1fs\n", time.Since(t0).Seconds())
	for _, r := range E.nameRepairs {
		fmt.Println("NOTE name-repair:", r)
	}
	scratch := *dump
	if scratch == "" {
		scratch = scratchDir()
		defer os.RemoveAll(scratch)
	} else {
		_ = os.MkdirAll(scratch, 0o755)
	}
	var all []*Obligation
	for _, fr := range frs {
		all = append(all, fr.Obls...)
	}
	DischargeAll(all, scratch, *timeout, 16)
	bad := 0
	for _, fr := range frs {
		fmt.Printf("== %s %s (%d obligations)\n", fr.Pkg, fr.Key, len(fr.Obls))
		for _, e := range fr.Errs {
			fmt.Printf("   ERROR %s\n", e)
		}
		if *verbose {
			for _, n := range fr.Notes {
				fmt.Printf("   note: %s\n", n)
			}
		}
		for _, o := range fr.Obls {
			want := "unsat"
			if o.ExpectSat {
				want = "sat"
			}
			mark := "ok  "
			if o.Result != want {
				mark = "FAIL"
				bad++
			}
			fmt.Printf("   %s %-60s %-8s %-7s %.2fs\n", mark, o.Name, o.Result, o.Backend, o.TimeS)
			if o.Result != want && *verbose {
				out := o.Output
				if len(out) > 600 {
					out = out[:600] + "..."
				}
				fmt.Printf("        %s\n        %s\n", o.Text, strings.ReplaceAll(out, "\n", "\n        "))
			}
			if o.Result != want && o.Result == "sat" && !o.ExpectSat {
				rep := map[string]interface{}{"replay_dir": scratch}
				found := tryReplay(E, o, rep, "", scratch)
				fmt.Printf("        replay: reproduced=%v %v inputs=%v\n", found, rep["replay_note"], rep["replay_inputs"])
				if *verbose {
					fmt.Printf("        %v\n", rep["replay_output"])
				}
			}
		}
	}
	fmt.Printf("%d obligations, %d not as expected, %.1fs\n", len(all), bad, time.Since(t0).Seconds())
}

type evidence struct {
	PropertyID  string                 `json:"property_id"`
	Tier        string                 `json:"tier"`
	Seed        int                    `json:"seed"`
	Level       string                 `json:"level"`
	Coverage    map[string]interface{} `json:"coverage"`
	Assumptions []string               `json:"assumptions"`
	WallS       float64                `json:"wall_s"`
	Violations  int                    `json:"violations"`
}

func cmdCheck(args []string, writeLedger bool) {
	fs := flag.NewFlagSet("check", flag.ExitOnError)
	tier := fs.String("tier", "", "quick|thorough")
	repo := fs.String("repo", "/repo", "repository root")
	_ = fs.Parse(args[1:])
	prop := args[0]
	root := verifRoot()
	if *tier == "" {
		*tier = os.Getenv("VERIF_TIER")
	}
	if *tier != "thorough" {
		*tier = "quick"
	}
	seed, _ := strconv.Atoi(os.Getenv("VERIF_SEED"))
	t0 := time.Now()

	var props map[string]PropCfg
	b, err := os.ReadFile(filepath.Join(root, "props.json"))
	if err != nil {
		fmt.Fprintln(os.Stderr, err)
		os.Exit(3)
	}
	if err := json.Unmarshal(b, &props); err != nil {
		fmt.Fprintln(os.Stderr, "props.json:", err)
		os.Exit(3)
	}
	cfg, ok := props[prop]
	if !ok {
		fmt.Fprintln(os.Stderr, "unknown property", prop)
		os.Exit(3)
	}
	timeout := 15
	if *tier == "thorough" {
		timeout = 60
	}
	E := NewEngine(*repo)
	E.names = loadNames(verifRoot())
	frs, err := gather(E, cfg.Packages, prop, "")
	violations := 0
	replayDir := filepath.Join(root, "replay", prop)
	_ = os.RemoveAll(replayDir)
	_ = os.MkdirAll(replayDir, 0o755)
	var lines []string
	if err != nil {
		// the tree does not load (type error in contracts / code): every obligation is ungenerated
		rp := filepath.Join(replayDir, "load-error.json")
		writeJSON(rp, map[string]interface{}{"property": prop, "obligation": "load", "reason": "cannot-generate: " + err.Error()})
		fmt.Printf("VIOLATION property=%s replay=%s no-failing-input-found\n", prop, rp)
		writeEvidence(root, prop, *tier, seed, nil, nil, cfg, time.Since(t0).Seconds(), 1, nil, 0)
		os.Exit(1)
	}
	scratch := scratchDir()
	defer os.RemoveAll(scratch)
	nameRepairsOut = append(nameRepairsOut, E.nameRepairs...)
	for _, r := range E.nameRepairs {
		fmt.Println("NOTE name-repair:", r)
	}
	var all []*Obligation
	byName := map[string]*Obligation{}
	for _, fr := range frs {
		for _, o := range fr.Obls {
			all = append(all, o)
			byName[o.Name] = o
		}
	}
	var known []KnownFinding
	if kb, err := os.ReadFile(filepath.Join(root, "known_findings.json")); err == nil {
		_ = json.Unmarshal(kb, &known)
	}
	knownBy := map[string]KnownFinding{}
	for _, k := range known {
		if k.Kind == "known" {
			// a recorded finding applies to every property whose obligations include it
			if o := byName[k.Obligation]; o != nil {
				knownBy[k.Obligation] = k
				o.Known = true
			}
		}
	}
	if !writeLedger {
		// obligations that are not discharged on the unchanged tree are never claimed: no long retries for them
		if lb, err := os.ReadFile(filepath.Join(root, "ledger", prop+".json")); err == nil {
			var lg0 Ledger
			_ = json.Unmarshal(lb, &lg0)
			for _, n := range lg0.Unproved {
				if o := byName[n]; o != nil {
					o.Known = true
				}
			}
		}
	}
	DischargeAll(all, scratch, timeout, 16)
	if *tier == "thorough" && !writeLedger {
		ConfirmAll(all, scratch, 10, 16)
		for _, o := range all {
			if o.Disagree != "" {
				// an engine-level warning (a solver bug or an ill-formed query), listed in the evidence; the
				// verdict of the race is kept so that a solver's quirk is not turned into a property alarm
				fmt.Fprintf(os.Stderr, "WARNING solver disagreement on %s: %s says unsat, %s says sat\n", o.Name, o.Backend, o.Disagree)
			}
		}
	}

	ledgerPath := filepath.Join(root, "ledger", prop+".json")
	if writeLedger {
		var lg Ledger
		// an obligation that was discharged but slowly is timed again on its own: sixteen queries in parallel slow each
		// other down, and admission should measure the query, not the contention of the ledger run
		for _, o := range all {
			want := "unsat"
			if o.ExpectSat {
				want = "sat"
			}
			if o.Result == want && !o.Known && o.TimeS >= float64(timeout)*0.7 {
				Discharge(o, scratch, timeout, "")
			}
		}
		for _, o := range all {
			want := "unsat"
			if o.ExpectSat {
				want = "sat"
			}
			if o.Result == want && o.TimeS < float64(timeout)*0.7 {
				lg.Proved = append(lg.Proved, LedgerEntry{o.Name, want})
			} else {
				lg.Unproved = append(lg.Unproved, o.Name)
				fmt.Printf("not in ledger: %s (%s %.1fs) %s\n", o.Name, o.Result, o.TimeS, firstLines(o.Output, 2))
			}
		}
		sort.Slice(lg.Proved, func(i, j int) bool { return lg.Proved[i].Name < lg.Proved[j].Name })
		sort.Strings(lg.Unproved)
		// never demote silently: an obligation proved in the previous ledger that is now unproved or gone
		// must be looked at (a contract or engine change broke it); refuse unless VERIF_LEDGER_FORCE=1
		var old Ledger
		if ob, err := os.ReadFile(ledgerPath); err == nil {
			_ = json.Unmarshal(ob, &old)
		}
		nowProved := map[string]bool{}
		for _, e := range lg.Proved {
			nowProved[e.Name] = true
		}
		var demoted []string
		for _, e := range old.Proved {
			if !nowProved[e.Name] {
				demoted = append(demoted, e.Name)
			}
		}
		if len(demoted) > 0 {
			fmt.Printf("DEMOTED (proved in the committed ledger, not proved now): %s\n", strings.Join(demoted, " "))
			if os.Getenv("VERIF_LEDGER_FORCE") != "1" {
				fmt.Println("ledger NOT rewritten (set VERIF_LEDGER_FORCE=1 after checking each of them)")
				os.Exit(2)
			}
		}
		_ = os.MkdirAll(filepath.Dir(ledgerPath), 0o755)
		writeJSON(ledgerPath, lg)
		fmt.Printf("ledger %s: %d obligations (%d generated, %d unproved)\n", prop, len(lg.Proved), len(all), len(lg.Unproved))
	}
	var lg Ledger
	lb, err := os.ReadFile(ledgerPath)
	if err != nil {
		fmt.Fprintln(os.Stderr, "no ledger for", prop)
		os.Exit(3)
	}
	_ = json.Unmarshal(lb, &lg)
	led := lg.Proved
	unprovedAtBaseline := map[string]bool{}
	for _, n := range lg.Unproved {
		unprovedAtBaseline[n] = true
	}
	discharged := 0
	inLedger := map[string]bool{}
	for _, le := range led {
		inLedger[le.Name] = true
		o := byName[le.Name]
		if o == nil {
			// obligation vanished: function/loop/call structure changed
			fnKey := le.Name
			if i := strings.LastIndex(fnKey, "/"); i >= 0 {
				fnKey = fnKey[:i]
			}
			if rest := strings.TrimPrefix(le.Name, fnKey+"/"); strings.HasPrefix(rest, "call-cover.") || (strings.HasPrefix(rest, "call.") && strings.Contains(rest, ".pre.")) {
				// a vacuity guard, or the precondition, of a call site that no longer exists has nothing left to guard: not a
				// violation as long as the function itself is still generated without errors (its other obligations,
				// postconditions, call counts and callreq clauses included, are all still demanded)
				alive := false
				for _, fr := range frs {
					if strings.HasSuffix(fnKey, "."+fr.Key) && len(fr.Errs) == 0 && len(fr.Obls) > 0 {
						alive = true
					}
				}
				if alive {
					droppedGuards = append(droppedGuards, le.Name)
					continue
				}
			}
			reason := "cannot-generate: obligation no longer generated (function, loop or call structure under contract changed)"
			for _, fr := range frs {
				if strings.HasSuffix(fnKey, "."+fr.Key) && len(fr.Errs) > 0 {
					reason = "cannot-generate: " + strings.Join(fr.Errs, "; ")
				}
			}
			rp := filepath.Join(replayDir, sanitize(le.Name)+".json")
			writeJSON(rp, map[string]interface{}{"property": prop, "obligation": le.Name, "verdict": "missing", "reason": reason})
			lines = append(lines, fmt.Sprintf("VIOLATION property=%s replay=%s no-failing-input-found", prop, rp))
			violations++
			continue
		}
		if o.Result == le.Expect {
			discharged++
			continue
		}
		rp := filepath.Join(replayDir, sanitize(le.Name)+".json")
		rep := map[string]interface{}{"property": prop, "obligation": o.Name, "kind": o.Kind, "contract": o.Text, "contract_src": o.Src,
			"expected": le.Expect, "verdict": o.Result, "backend": o.Backend, "solver_output": o.Output, "model": o.Model}
		if o.Gen != "" {
			rep["reason"] = "cannot-generate: " + o.Gen
		}
		found := false
		rep["replay_dir"] = replayDir
		if o.Result == "sat" {
			found = tryReplay(E, o, rep, root, scratch)
		}
		writeJSON(rp, rep)
		_ = os.WriteFile(strings.TrimSuffix(rp, ".json")+".smt2", []byte(o.Query+"(check-sat)\n(get-model)\n"), 0o644)
		if found {
			lines = append(lines, fmt.Sprintf("VIOLATION property=%s replay=%s", prop, rp))
		} else {
			lines = append(lines, fmt.Sprintf("VIOLATION property=%s replay=%s no-failing-input-found", prop, rp))
		}
		violations++
	}
	// obligations that did not exist on the unchanged tree and fail now (e.g. a new call whose
	// callee precondition is not met, a new loop without invariant): later proofs relied on them
	for _, o := range all {
		if inLedger[o.Name] || unprovedAtBaseline[o.Name] {
			continue
		}
		want := "unsat"
		if o.ExpectSat {
			want = "sat"
		}
		if o.Result == want {
			continue
		}
		rp := filepath.Join(replayDir, sanitize(o.Name)+".json")
		rep := map[string]interface{}{"property": prop, "obligation": o.Name, "kind": o.Kind, "contract": o.Text, "contract_src": o.Src,
			"expected": want, "verdict": o.Result, "backend": o.Backend, "solver_output": o.Output, "model": o.Model,
			"note": "obligation newly generated from the changed source (not present on the unchanged tree) and not discharged"}
		if o.Gen != "" {
			rep["reason"] = "cannot-generate: " + o.Gen
		}
		found := false
		rep["replay_dir"] = replayDir
		if o.Result == "sat" {
			found = tryReplay(E, o, rep, root, scratch)
		}
		writeJSON(rp, rep)
		if found {
			lines = append(lines, fmt.Sprintf("VIOLATION property=%s replay=%s", prop, rp))
		} else {
			lines = append(lines, fmt.Sprintf("VIOLATION property=%s replay=%s no-failing-input-found", prop, rp))
		}
		violations++
	}
	// known findings: strong obligations that are expected to fail
	for name, k := range knownBy {
		o := byName[name]
		if o == nil {
			continue
		}
		want := "unsat"
		if o.ExpectSat {
			want = "sat"
		}
		if o.Result != want {
			lines = append(lines, fmt.Sprintf("KNOWN-FINDING: property=%s %s [%s]", prop, k.What, name))
		}
	}
	// bounded stand-ins
	var boundedRes []map[string]interface{}
	for _, bc := range cfg.Bounded {
		if bc.Tier == "thorough" && *tier != "thorough" {
			continue
		}
		r := runBounded(bc, prop, root, *tier, seed, replayDir, *repo)
		boundedRes = append(boundedRes, r)
		if r["ok"] != true {
			violations++
			lines = append(lines, fmt.Sprintf("VIOLATION property=%s replay=%s", prop, r["replay"]))
		}
	}
	for _, l := range lines {
		fmt.Println(l)
	}
	writeEvidence(root, prop, *tier, seed, frs, all, cfg, time.Since(t0).Seconds(), violations, boundedRes, discharged)
	// summary
	fmt.Printf("%s: %d ledger obligations, %d discharged, %d generated, %d violations, %.1fs\n", prop, len(led), discharged, len(all), violations, time.Since(t0).Seconds())
	if len(led) == 0 && len(cfg.Bounded) == 0 {
		fmt.Println("engine error: empty ledger")
		os.Exit(3)
	}
	if violations > 0 {
		os.Exit(1)
	}
}

func writeJSON(path string, v interface{}) {
	b, _ := json.MarshalIndent(v, "", " ")
	_ = os.MkdirAll(filepath.Dir(path), 0o755)
	_ = os.WriteFile(path, append(b, '\n'), 0o644)
}

// nameRepairsOut: contract clauses re-read with renamed identifiers in this run (names.go); empty on the pinned tree
var nameRepairsOut = []string{}

// droppedGuards: ledger vacuity guards (call-cover) whose call site no longer exists in a function that is otherwise intact
var droppedGuards = []string{}

func writeEvidence(root, prop, tier string, seed int, frs []*FuncResult, all []*Obligation, cfg PropCfg, wall float64, violations int, bounded []map[string]interface{}, discharged int) {
	var ledgerNames map[string]bool
	if lb, err := os.ReadFile(filepath.Join(root, "ledger", prop+".json")); err == nil {
		var lg Ledger
		_ = json.Unmarshal(lb, &lg)
		ledgerNames = map[string]bool{}
		for _, l := range lg.Proved {
			ledgerNames[l.Name] = true
		}
	}
	perBackend := map[string]int{}
	confirmed := 0
	disagreements := []string{}
	for _, o := range all {
		if len(o.Confirmed) > 0 {
			confirmed++
		}
		if o.Disagree != "" {
			disagreements = append(disagreements, fmt.Sprintf("%s: %s unsat, %s sat", o.Name, o.Backend, o.Disagree))
		}
	}
	solverTime := 0.0
	var samples []interface{}
	var notLedger []string
	type slow struct {
		n string
		t float64
	}
	var slows []slow
	nObl := 0
	for _, o := range all {
		if !ledgerNames[o.Name] {
			notLedger = append(notLedger, fmt.Sprintf("%s (%s)", o.Name, o.Result))
			continue
		}
		nObl++
		perBackend[o.Backend]++
		solverTime += o.TimeS
		slows = append(slows, slow{o.Name, o.TimeS})
		if len(samples) < 6 && o.Kind != "pre-cover" && o.Kind != "exit-cover" {
			samples = append(samples, map[string]interface{}{"obligation": o.Name, "kind": o.Kind, "contract": o.Text, "src": o.Src, "verdict": o.Result, "backend": o.Backend, "time_s": o.TimeS})
		}
	}
	sort.Slice(slows, func(i, j int) bool { return slows[i].t > slows[j].t })
	var slowest []string
	for i := 0; i < len(slows) && i < 5; i++ {
		slowest = append(slowest, fmt.Sprintf("%s %.2fs", slows[i].n, slows[i].t))
	}
	var funcs []string
	var replayable []string
	abstr := map[string]bool{}
	var trusted []string
	for _, fr := range frs {
		funcs = append(funcs, fr.Pkg+"."+fr.Key)
		if fr.Replayable {
			replayable = append(replayable, fr.Pkg+"."+fr.Key)
		}
		for _, n := range fr.Notes {
			abstr[fr.Key+": "+n] = true
		}
		for _, t := range fr.Trusted {
			trusted = append(trusted, fr.Key+": "+t)
		}
	}
	var abs []string
	for a := range abstr {
		abs = append(abs, a)
	}
	sort.Strings(abs)
	assumptions := append([]string{}, cfg.Assumptions...)
	assumptions = append(assumptions,
		"govc (VC generator, SMT encoding, ledger logic) is trusted; z3 4.8.12 / z3 5.1.0 / cvc5 1.0 are trusted",
		"integers are mathematical (SMT Int) with the Go type's range assumed for inputs, except functions in 'mode bv' which are bit-precise",
		"no goroutine interleaving is modelled; select = nondeterministic choice; channel ops are ghost events / havoc",
		"calls without contract that are not inlined are abstracted: results unconstrained, no effect on modelled state (listed under abstracted_constructs)",
		"slices have value semantics (backing-array aliasing not modelled); termination is not proved")
	assumptions = append(assumptions, trusted...)
	cov := map[string]interface{}{
		"obligations":              nObl,
		"discharged":               discharged,
		"checker_cmd":              fmt.Sprintf("/verif/check %s --tier %s", prop, tier),
		"trusted_base":             []string{"govc VC generator (/verif/govc)", "z3 4.8.12", "z3 5.1.0 (z3-new)", "cvc5 1.0", "go/types, golang.org/x/tools/go/packages"},
		"samples":                  samples,
		"functions_under_contract": funcs,
		"functions_with_model_replay": replayable,
		"per_backend":              perBackend,
		"confirmed_by_second_solver": confirmed,
		"solver_disagreements":       disagreements,
		"solver_time_s":            solverTime,
		"slowest":                  slowest,
		"generated_not_in_ledger":  notLedger,
		"abstracted_constructs":    abs,
		"name_repairs":             nameRepairsOut,
		"guards_of_removed_call_sites": droppedGuards,
		"not_decided":              cfg.NotDecided,
		"bounded_checks":           bounded,
	}
	if nObl == 0 {
		cov["obligations"] = 0
	}
	ev := evidence{PropertyID: prop, Tier: tier, Seed: seed, Level: "proof", Coverage: cov, Assumptions: assumptions, WallS: wall, Violations: violations}
	writeJSON(filepath.Join(root, "evidence", prop+".json"), ev)
}
