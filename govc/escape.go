package main

import (
	"fmt"
	"os"
	"go/ast"
	"go/token"
	"go/types"
)

// Variables of the function under verification that a function literal assigns and that literal escapes (it is stored in
// a field, passed to a callee, started as a goroutine or returned): any call whose body is not visible here may run the
// literal, so these variables are unconstrained after such a call. Literals that are bound to a local name and only ever
// called through it, deferred literals and directly applied literals are expanded in place and need no havoc.
// Without this, `decided := false; def.Decide = func(..){ decided = true }; qbft.Run(.., def, ..); if !decided { return }`
// made everything after the check unreachable in the model (found by seeded change C03-r7).
type capturedVar struct {
	obj types.Object
}

func (f *FuncCtx) escapedCaptures() []capturedVar {
	if f.escDone {
		return f.escCaps
	}
	root := f.fr
	for root != nil && root.parent != nil {
		root = root.parent
	}
	if root == nil || root.scope == nil {
		return nil
	}
	f.escDone = true
	body := root.scope
	info := f.info()
	// identifiers in call position
	callee := map[*ast.Ident]bool{}
	applied := map[*ast.FuncLit]bool{}
	goLits := map[*ast.FuncLit]bool{}
	ast.Inspect(body, func(n ast.Node) bool {
		switch x := n.(type) {
		case *ast.CallExpr:
			switch fn := ast.Unparen(x.Fun).(type) {
			case *ast.Ident:
				callee[fn] = true
			case *ast.FuncLit:
				applied[fn] = true
			}
		case *ast.GoStmt:
			if fl, ok := ast.Unparen(x.Call.Fun).(*ast.FuncLit); ok {
				goLits[fl] = true
			}
		}
		return true
	})
	// literals bound to a local name
	boundTo := map[*ast.FuncLit]types.Object{}
	ast.Inspect(body, func(n ast.Node) bool {
		switch x := n.(type) {
		case *ast.AssignStmt:
			if len(x.Lhs) == len(x.Rhs) {
				for i, r := range x.Rhs {
					if fl, ok := ast.Unparen(r).(*ast.FuncLit); ok {
						if id, ok := x.Lhs[i].(*ast.Ident); ok {
							if o := info.ObjectOf(id); o != nil {
								boundTo[fl] = o
							}
						}
					}
				}
			}
		case *ast.ValueSpec:
			if len(x.Names) == len(x.Values) {
				for i, r := range x.Values {
					if fl, ok := ast.Unparen(r).(*ast.FuncLit); ok {
						if o := info.ObjectOf(x.Names[i]); o != nil {
							boundTo[fl] = o
						}
					}
				}
			}
		}
		return true
	})
	// a bound name escapes if it is used anywhere but in call position
	nameEscapes := map[types.Object]bool{}
	ast.Inspect(body, func(n ast.Node) bool {
		if id, ok := n.(*ast.Ident); ok {
			if o := info.Uses[id]; o != nil && !callee[id] {
				nameEscapes[o] = true
			}
		}
		return true
	})
	seen := map[types.Object]bool{}
	var out []capturedVar
	var visit func(n ast.Node, escaping bool)
	collect := func(fl *ast.FuncLit) {
		outer := func(e ast.Expr) {
			for {
				switch x := ast.Unparen(e).(type) {
				case *ast.IndexExpr:
					e = x.X
					continue
				case *ast.SelectorExpr:
					e = x.X
					continue
				case *ast.StarExpr:
					e = x.X
					continue
				case *ast.Ident:
					o := info.ObjectOf(x)
					v, isVar := o.(*types.Var)
					if !isVar || v.IsField() || o.Pkg() == nil || o.Parent() == o.Pkg().Scope() {
						return
					}
					if o.Pos() >= fl.Pos() && o.Pos() <= fl.End() {
						return // the literal's own local or parameter
					}
					if !seen[o] {
						seen[o] = true
						out = append(out, capturedVar{obj: o})
					}
				}
				return
			}
		}
		ast.Inspect(fl.Body, func(n ast.Node) bool {
			switch x := n.(type) {
			case *ast.AssignStmt:
				if x.Tok == token.DEFINE {
					// redeclarations on the left of := may still assign an outer variable only if it is in the same
					// scope, which cannot be a variable declared outside the literal
					return true
				}
				for _, l := range x.Lhs {
					outer(l)
				}
			case *ast.IncDecStmt:
				outer(x.X)
			}
			return true
		})
	}
	visit = func(n ast.Node, escaping bool) {
		ast.Inspect(n, func(m ast.Node) bool {
			fl, ok := m.(*ast.FuncLit)
			if !ok {
				return true
			}
			esc := escaping
			if !esc {
				switch {
				case goLits[fl]:
					esc = true
				case applied[fl]:
					esc = false
				default:
					if o, ok := boundTo[fl]; ok {
						esc = nameEscapes[o]
					} else {
						esc = true
					}
				}
			}
			if esc {
				collect(fl)
			}
			// literals nested in an escaping literal escape with it
			visit(fl.Body, esc)
			return false
		})
	}
	visit(body, false)
	f.escCaps = out
	if os.Getenv("GOVC_DEBUG_ESC") != "" {
		for _, cv := range out {
			fmt.Fprintf(os.Stderr, "escaped capture in %s: %s\n", f.key, cv.obj.Name())
		}
	}
	return out
}

// havocEscapedCaptures makes the variables assigned by escaping function literals unconstrained (at a call whose body
// is not visible: an external function, or a callee used through its contract).
func (f *FuncCtx) havocEscapedCaptures(env *Env) {
	if f.spec != nil || env.dead {
		return
	}
	if os.Getenv("GOVC_DEBUG_ESC") != "" {
		fmt.Fprintf(os.Stderr, "havocEscapedCaptures in %s fr=%v\n", f.key, f.fr != nil)
	}
	for _, cv := range f.escapedCaptures() {
		if v, ok := env.vars[cv.obj]; ok && v.Clo == nil {
			env.vars[cv.obj] = f.freshVal(cv.obj.Type(), cv.obj.Name())
		}
	}
}
