package main

import (
	"fmt"
	"go/ast"
	"go/token"
	"go/types"
	"sort"
	"strings"

	"golang.org/x/tools/go/packages"
)

// Env is a symbolic state.
type Env struct {
	vars  map[types.Object]Val
	names map[string]Val // ghost and special names
	heap  map[string]string
	pc    string
	dead  bool
}

func (e *Env) clone() *Env {
	n := &Env{vars: make(map[types.Object]Val, len(e.vars)), names: make(map[string]Val, len(e.names)), heap: make(map[string]string, len(e.heap)), pc: e.pc, dead: e.dead}
	for k, v := range e.vars {
		n.vars[k] = v
	}
	for k, v := range e.names {
		n.names[k] = v
	}
	for k, v := range e.heap {
		n.heap[k] = v
	}
	return n
}

// frame is the per-function (or per-inlined-callee) context.
type frame struct {
	c       *FuncContract
	pc      *PkgContracts
	pkg     *packages.Package
	loopOrd int
	rets    []*Env
	retDefers []int // per return state: how many deferred calls had been registered when it was reached
	results []types.Object // named results (or nil)
	sig     *types.Signature
	scope   ast.Node // function body for name lookup
	name    string
	depth   int
	parent  *frame
	defers  []*ast.CallExpr
	bound   map[string]Val // extra name bindings (spec evaluation of callee contracts)
	callPos token.Pos      // position of the call that this inlined frame expands
}

// flow collects abrupt exits of the innermost breakable statement.
type flow struct {
	brk, cont []*Env
	label     string
	outer     *flow
	isLoop    bool
}

// FuncCtx verifies one function.
type FuncCtx struct {
	E     *Engine
	Pkg   *packages.Package
	Decl  *ast.FuncDecl
	C     *FuncContract
	PC    *PkgContracts
	S     *Sorts
	lines []string
	n     int
	entry *Env
	obls  []*Obligation
	fr    *frame
	key   string
	replay *ReplayInfo

	callOrd   map[string]int
	safeOrd   map[string]int
	trackCall map[string]bool
	errs      []string
	notes     map[string]bool // abstractions applied
	heap0     map[string]string
	heapSort  map[string][2]string
	globals   map[types.Object]Val
	pures     map[string]bool
	specDone  map[string]bool
	specBusy  map[string]bool

	pendingQueries []pendingQ
	spec           *specCtx
	clauseErr      string
	macroDepth     int
	mayCallBusy    map[types.Object]bool
	aliases        map[types.Object]ast.Expr
	aliasDepth     int
	allocs         map[string][]string
	noHeap         int
	axiomsDone     map[string]bool
	locked         bool
	relock         func(env *Env)
	specDepth      int
	cerrs          []string
	guardObls      []*Obligation
	sendNonBlocking bool // set while the comm statement of a select WITH a default clause is executed
	escDone        bool
	escCaps        []capturedVar
}

func (f *FuncCtx) note(s string) { f.notes[s] = true }

func (f *FuncCtx) fail(format string, a ...interface{}) {
	f.errs = append(f.errs, fmt.Sprintf(format, a...))
}

func (f *FuncCtx) emit(s string) { f.lines = append(f.lines, s) }

func (f *FuncCtx) fresh(hint, sort string) string {
	f.n++
	h := sanitize(hint)
	if len(h) > 24 {
		h = h[:24]
	}
	name := fmt.Sprintf("%s!%d", h, f.n)
	f.emit(fmt.Sprintf("(declare-const %s %s)", name, sort))
	return name
}

// define names a term.
func (f *FuncCtx) define(hint, sort, term string) string {
	n := f.fresh(hint, sort)
	f.emit(fmt.Sprintf("(assert (= %s %s))", n, term))
	return n
}

func (f *FuncCtx) name(v Val, hint string) Val {
	if f.spec != nil {
		return v // contract expressions may mention bound variables: never hoisted into definitions
	}
	if len(v.T) > 48 && v.Clo == nil {
		v.T = f.define(hint, f.sortOfVal(v), v.T)
	}
	return v
}

func (f *FuncCtx) sortOfVal(v Val) string {
	if v.S != "" {
		return v.S
	}
	return f.S.SortOf(v.Typ)
}

// assume strengthens the path condition.
func (f *FuncCtx) assume(env *Env, cond string) {
	if cond == "true" {
		return
	}
	n := f.fresh("pc", "Bool")
	f.emit(fmt.Sprintf("(assert (=> %s (and %s %s)))", n, env.pc, cond))
	env.pc = n
}

// typeInv returns type-level invariants of a term (ranges, non-negative lengths).
func (f *FuncCtx) typeInv(t string, typ types.Type, depth int) []string {
	if typ == nil || depth > 2 {
		return nil
	}
	typ = types.Unalias(typ)
	var out []string
	switch u := typ.Underlying().(type) {
	case *types.Basic:
		if u.Info()&types.IsInteger != 0 && !f.S.bv {
			w := intWidth(u)
			if u.Info()&types.IsUnsigned != 0 {
				out = append(out, fmt.Sprintf("(>= %s 0)", t), fmt.Sprintf("(<= %s %s)", t, pow2m1(w)))
			} else {
				out = append(out, fmt.Sprintf("(>= %s (- %s))", t, pow2(w-1)), fmt.Sprintf("(<= %s %s)", t, pow2m1(w-1)))
			}
		}
	case *types.Slice:
		out = append(out, fmt.Sprintf("(>= (s_len %s) 0)", t), fmt.Sprintf("(=> (s_nil %s) (= (s_len %s) 0))", t, t))
		if _, basic := u.Elem().Underlying().(*types.Basic); !basic {
			// elements of a slice are values of the element type (only structured elements: scalar ranges would
			// put a quantifier on every byte slice)
			iv := fmt.Sprintf("i!e%d", depth)
			el := fmt.Sprintf("(select (s_arr %s) %s)", t, iv)
			if einv := f.typeInv(el, u.Elem(), depth+1); len(einv) > 0 {
				out = append(out, fmt.Sprintf("(forall ((%s Int)) (! (=> (and (<= 0 %s) (< %s (s_len %s))) (and %s)) :pattern (%s)))", iv, iv, iv, t, strings.Join(einv, " "), el))
			}
		}
	case *types.Map:
		out = append(out, fmt.Sprintf("(>= (m_card %s) 0)", t))
		k := f.S.SortOf(u.Key())
		out = append(out, fmt.Sprintf("(forall ((k!q %s)) (! (=> (select (m_dom %s) k!q) (>= (m_card %s) 1)) :pattern ((select (m_dom %s) k!q))))", k, t, t, t))
		out = append(out, fmt.Sprintf("(=> (= (m_card %s) 0) (= (m_dom %s) ((as const (Array %s Bool)) false)))", t, t, k))
		if kinv := f.typeInv("k!q", u.Key(), depth+1); len(kinv) > 0 {
			// keys present in a map are values of the key type
			out = append(out, fmt.Sprintf("(forall ((k!q %s)) (! (=> (select (m_dom %s) k!q) (and %s)) :pattern ((select (m_dom %s) k!q))))", k, t, strings.Join(kinv, " "), t))
		}
	case *types.Struct:
		if srt, st, ok := f.S.isDatatypeStruct(typ); ok {
			for i := 0; i < st.NumFields(); i++ {
				fl := st.Field(i)
				out = append(out, f.typeInv(fmt.Sprintf("(%s %s)", f.S.fieldAcc(srt, fl.Name()), t), fl.Type(), depth+1)...)
			}
		}
	}
	return out
}

func pow2(w int) string {
	switch w {
	case 7:
		return "128"
	case 8:
		return "256"
	case 15:
		return "32768"
	case 16:
		return "65536"
	case 31:
		return "2147483648"
	case 32:
		return "4294967296"
	case 63:
		return "9223372036854775808"
	case 64:
		return "18446744073709551616"
	}
	return "18446744073709551616"
}
func pow2m1(w int) string {
	switch w {
	case 7:
		return "127"
	case 8:
		return "255"
	case 15:
		return "32767"
	case 16:
		return "65535"
	case 31:
		return "2147483647"
	case 32:
		return "4294967295"
	case 63:
		return "9223372036854775807"
	case 64:
		return "18446744073709551615"
	}
	return "18446744073709551615"
}

// freshVal creates an unconstrained value of a Go type (with type invariants assumed globally).
func (f *FuncCtx) freshVal(typ types.Type, hint string) Val {
	n := f.fresh(hint, f.S.SortOf(typ))
	for _, c := range f.typeInv(n, typ, 0) {
		f.emit(fmt.Sprintf("(assert %s)", c))
	}
	return Val{T: n, Typ: typ}
}

// heapName returns the heap array name for a field of a pointer-to-struct type.
func (f *FuncCtx) heapName(elem types.Type, field *types.Var) string {
	ref := f.S.SortOf(types.NewPointer(elem))
	h := "H." + ref + "." + field.Name()
	if _, ok := f.heapSort[h]; !ok {
		f.heapSort[h] = [2]string{ref, f.S.SortOf(field.Type())}
	}
	return h
}

func (f *FuncCtx) heapGet(env *Env, h string) string {
	if f.noHeap > 0 {
		f.fail("recursive/opaque spec function bodies cannot read the heap (%s)", h)
	}
	if t, ok := env.heap[h]; ok {
		return t
	}
	if t, ok := f.heap0[h]; ok {
		return t
	}
	hs := f.heapSort[h]
	t := f.fresh("H0_"+strings.TrimPrefix(h, "H."), fmt.Sprintf("(Array %s %s)", hs[0], hs[1]))
	f.heap0[h] = t
	for _, a := range f.allocs[hs[1]] {
		// the entry heap cannot hold references allocated during the call
		f.emit(fmt.Sprintf("(assert (forall ((r!f %s)) (! (not (= (select %s r!f) %s)) :pattern ((select %s r!f)))))", hs[0], t, a, t))
	}
	return t
}

// merge joins several states.
func (f *FuncCtx) merge(envs []*Env) *Env {
	var live []*Env
	for _, e := range envs {
		if e != nil && !e.dead {
			live = append(live, e)
		}
	}
	if len(live) == 0 {
		return &Env{vars: map[types.Object]Val{}, names: map[string]Val{}, heap: map[string]string{}, pc: "false", dead: true}
	}
	if len(live) == 1 {
		return live[0]
	}
	m := live[0].clone()
	pcs := make([]string, len(live))
	for i, e := range live {
		pcs[i] = e.pc
	}
	pc := f.fresh("pc", "Bool")
	f.emit(fmt.Sprintf("(assert (=> %s (or %s)))", pc, strings.Join(pcs, " ")))
	m.pc = pc
	// vars (a variable missing in some state is out of scope / undefined there: any value)
	union := map[types.Object]bool{}
	for _, e := range live {
		for obj := range e.vars {
			union[obj] = true
		}
	}
	var uobjs []types.Object
	for obj := range union {
		uobjs = append(uobjs, obj)
	}
	// total order: position, name, then the terms currently bound (objects without a position, e.g. results of
	// instantiated generics, would otherwise tie and make the emitted text depend on map iteration order)
	bound := func(o types.Object) string {
		var b strings.Builder
		for _, e := range live {
			if v, ok := e.vars[o]; ok {
				b.WriteString(v.T)
			}
			b.WriteByte('|')
		}
		return b.String()
	}
	sort.Slice(uobjs, func(i, j int) bool {
		a, c := uobjs[i], uobjs[j]
		if ka, kc := f.posKey(a), f.posKey(c); ka != kc {
			return ka < kc
		}
		if a.Name() != c.Name() {
			return a.Name() < c.Name()
		}
		return bound(a) < bound(c)
	})
	for _, obj := range uobjs {
		vals := make([]Val, len(live))
		same := true
		clo := false
		var first *Val
		for i, e := range live {
			v, ok := e.vars[obj]
			if !ok {
				same = false
				continue
			}
			vals[i] = v
			if v.Clo != nil {
				clo = true
			}
			if first == nil {
				vv := v
				first = &vv
			} else if v.T != first.T || v.Clo != first.Clo {
				same = false
			}
		}
		if same {
			m.vars[obj] = *first
			continue
		}
		if clo {
			// closures must be bound identically on all paths
			allSame := true
			for _, v := range vals {
				if v.Clo != first.Clo {
					allSame = false
				}
			}
			if allSame {
				m.vars[obj] = *first
			} else {
				delete(m.vars, obj)
			}
			continue
		}
		var dummy string
		t := ""
		for i := len(live) - 1; i >= 0; i-- {
			vt := vals[i].T
			if vt == "" {
				if dummy == "" {
					dummy = f.fresh("undef_"+obj.Name(), f.S.SortOf(obj.Type()))
				}
				vt = dummy
			}
			if t == "" {
				t = vt
			} else {
				t = fmt.Sprintf("(ite %s %s %s)", live[i].pc, vt, t)
			}
		}
		m.vars[obj] = Val{T: f.define(obj.Name(), f.S.SortOf(obj.Type()), t), Typ: obj.Type()}
	}
	for _, name := range sortedKeys(live[0].names) {
		v0 := live[0].names[name]
		same, all := true, true
		for _, e := range live[1:] {
			v, ok := e.names[name]
			if !ok {
				all = false
				break
			}
			if v.T != v0.T {
				same = false
			}
			if f.sortOfVal(v) != f.sortOfVal(v0) {
				all = false // ghost of another loop with a different sort: out of scope after the join
				break
			}
		}
		if !all {
			delete(m.names, name)
			continue
		}
		if same {
			continue
		}
		t := live[len(live)-1].names[name].T
		for i := len(live) - 2; i >= 0; i-- {
			t = fmt.Sprintf("(ite %s %s %s)", live[i].pc, live[i].names[name].T, t)
		}
		m.names[name] = Val{T: f.define(name, f.sortOfVal(v0), t), Typ: v0.Typ, S: v0.S}
	}
	// heaps: union of keys
	keys := map[string]bool{}
	for _, e := range live {
		for h := range e.heap {
			keys[h] = true
		}
	}
	var ks []string
	for h := range keys {
		ks = append(ks, h)
	}
	sort.Strings(ks)
	for _, h := range ks {
		t0 := f.heapGet(live[0], h)
		same := true
		for _, e := range live[1:] {
			if f.heapGet(e, h) != t0 {
				same = false
			}
		}
		if same {
			m.heap[h] = t0
			continue
		}
		t := f.heapGet(live[len(live)-1], h)
		for i := len(live) - 2; i >= 0; i-- {
			t = fmt.Sprintf("(ite %s %s %s)", live[i].pc, f.heapGet(live[i], h), t)
		}
		hs := f.heapSort[h]
		m.heap[h] = f.define("H_"+strings.TrimPrefix(h, "H."), fmt.Sprintf("(Array %s %s)", hs[0], hs[1]), t)
	}
	return m
}

// oblige records an obligation: in state env, goal must hold.
func (f *FuncCtx) oblige(name, kind string, env *Env, goal string, text string, src string) *Obligation {
	if env.dead {
		goal = "true"
	}
	o := &Obligation{Name: f.key + "/" + name, Kind: kind, Fn: f.key, Pkg: f.Pkg.PkgPath, Text: text, Src: src, Props: f.C.Props}
	o.Query = f.buildQuery(env.pc, goal, false)
	if kind == "ensures" || strings.HasPrefix(kind, "safe.") || strings.HasPrefix(kind, "unreachable.") {
		o.Replay = f.replay
	}
	if len(f.errs) > 0 {
		o.Gen = strings.Join(f.errs, "; ")
	}
	if f.clauseErr != "" {
		if o.Gen != "" {
			o.Gen += "; "
		}
		o.Gen += f.clauseErr
		f.clauseErr = ""
	}
	f.obls = append(f.obls, o)
	return o
}

// obligeSat records a satisfiability (vacuity) check: pc /\ cond must be sat.
func (f *FuncCtx) obligeSat(name, kind string, env *Env, cond string, text string) *Obligation {
	o := &Obligation{Name: f.key + "/" + name, Kind: kind, Fn: f.key, Pkg: f.Pkg.PkgPath, Text: text, ExpectSat: true, Props: f.C.Props}
	o.Query = f.buildQuery(env.pc, cond, true)
	f.obls = append(f.obls, o)
	return o
}

// obligeCallCover records the vacuity guard of a contract call: the state after assuming the callee's postconditions must
// be satisfiable whenever the state just before the call was.
func (f *FuncCtx) obligeCallCover(name string, pre, post *Env, text string) {
	if f.C == nil || pre == nil || post == nil || pre.dead || post.dead {
		return
	}
	g := &Obligation{Name: f.key + "/" + name + ".pre", Kind: "call-cover", Fn: f.key, Pkg: f.Pkg.PkgPath, Text: text, ExpectSat: true, Props: f.C.Props}
	g.Query = f.buildQuery(pre.pc, "true", true)
	f.guardObls = append(f.guardObls, g)
	o := &Obligation{Name: f.key + "/" + name, Kind: "call-cover", Fn: f.key, Pkg: f.Pkg.PkgPath, Text: text, ExpectSat: true, Props: f.C.Props, Guard: g}
	o.Query = f.buildQuery(post.pc, "true", true)
	f.obls = append(f.obls, o)
}

func (f *FuncCtx) buildQuery(pc, goal string, positive bool) string {
	// sort declarations are emitted lazily; remember the cut into the path lines
	f.pendingQueries = append(f.pendingQueries, pendingQ{len(f.lines), pc, goal, positive})
	return fmt.Sprintf("\x00%d", len(f.pendingQueries)-1)
}

type pendingQ struct {
	cut      int
	pc, goal string
	positive bool
}

// finalize materialises queries once all sort declarations are known.
func (f *FuncCtx) finalize() {
	decls := strings.Join(f.S.Decls(), "\n")
	for _, o := range append(append([]*Obligation{}, f.obls...), f.guardObls...) {
		if !strings.HasPrefix(o.Query, "\x00") {
			continue
		}
		var idx int
		fmt.Sscanf(o.Query[1:], "%d", &idx)
		p := f.pendingQueries[idx]
		var b strings.Builder
		b.WriteString(prelude)
		b.WriteString(decls)
		b.WriteString("\n")
		b.WriteString(strings.Join(f.lines[:p.cut], "\n"))
		b.WriteString("\n")
		b.WriteString(fmt.Sprintf("(assert %s)\n", p.pc))
		if p.positive {
			b.WriteString(fmt.Sprintf("(assert %s)\n", p.goal))
		} else {
			b.WriteString(fmt.Sprintf("(assert (not %s))\n", p.goal))
		}
		o.Query = b.String()
	}
}

func posStr(fset *token.FileSet, p token.Pos) string {
	pp := fset.Position(p)
	return fmt.Sprintf("%s:%d", pp.Filename, pp.Line)
}

// sortedKeys: map keys in a fixed order (the generated SMT text must not depend on Go's map iteration order: solver
// heuristics are sensitive to declaration order, and an obligation that is proved in one order may time out in another).
func sortedKeys[V any](m map[string]V) []string {
	ks := make([]string, 0, len(m))
	for k := range m {
		ks = append(ks, k)
	}
	sort.Strings(ks)
	return ks
}

// posKey orders objects by file name and offset: token.Pos values of different files depend on the order in which
// the loader happened to parse them, which changes from run to run.
func (f *FuncCtx) posKey(o types.Object) string {
	if !o.Pos().IsValid() {
		return ""
	}
	p := f.Pkg.Fset.Position(o.Pos())
	return fmt.Sprintf("%s:%09d", p.Filename, p.Offset)
}
