package tbls_test

// Bounded stand-in for the ASSUMED contract of the herumi BLS library (A-LAGRANGE / A-BLS), property C08.
// Labelled bounded: it exercises the real tbls package over a stated finite domain; it is never counted as proved.

import (
	"fmt"
	"math/rand"
	"os"
	"strconv"
	"testing"

	"github.com/obolnetwork/charon/tbls"
)

func TestBoundedC08(t *testing.T) {
	seed, _ := strconv.ParseInt(os.Getenv("VERIF_SEED"), 10, 64)
	thorough := os.Getenv("VERIF_TIER") == "thorough"
	rng := rand.New(rand.NewSource(seed + 1))
	maxExh := 7
	if thorough {
		maxExh = 9
	}
	evals, shapes := 0, 0
	check := func(n, th int, subsets [][]int, secret tbls.PrivateKey, shares map[int]tbls.PrivateKey, msgs [][]byte) {
		pub, err := tbls.SecretToPublicKey(secret)
		must(t, err)
		pubshares := map[int]tbls.PublicKey{}
		for i, s := range shares {
			p, err := tbls.SecretToPublicKey(s)
			must(t, err)
			pubshares[i] = p
		}
		for _, sub := range subsets {
			ss, ps := map[int]tbls.PrivateKey{}, map[int]tbls.PublicKey{}
			for _, i := range sub {
				ss[i], ps[i] = shares[i], pubshares[i]
			}
			rec, err := tbls.RecoverSecret(ss, uint(n), uint(th))
			must(t, err)
			if rec != secret {
				t.Fatalf("n=%d t=%d shares %v: recovered secret differs", n, th, sub)
			}
			rp, err := tbls.RecoverPubkey(ps)
			must(t, err)
			if rp != pub {
				t.Fatalf("n=%d t=%d shares %v: recovered public key differs", n, th, sub)
			}
			for _, msg := range msgs {
				full, err := tbls.Sign(secret, msg)
				must(t, err)
				part := map[int]tbls.Signature{}
				for _, i := range sub {
					s, err := tbls.Sign(shares[i], msg)
					must(t, err)
					part[i] = s
				}
				agg, err := tbls.ThresholdAggregate(part)
				must(t, err)
				if agg != full {
					t.Fatalf("n=%d t=%d shares %v: aggregate differs from the undivided key's signature", n, th, sub)
				}
				if err := tbls.Verify(pub, msg, agg); err != nil {
					t.Fatalf("n=%d t=%d shares %v: aggregate does not verify: %v", n, th, sub, err)
				}
				evals++
				// substitutions: wrong message for one share, wrong index, signature of a foreign share
				other := append([]byte("x"), msg...)
				bad := map[int]tbls.Signature{}
				for k, v := range part {
					bad[k] = v
				}
				first := sub[0]
				s2, _ := tbls.Sign(shares[first], other)
				bad[first] = s2
				if a2, err := tbls.ThresholdAggregate(bad); err == nil && tbls.Verify(pub, msg, a2) == nil {
					t.Fatalf("n=%d t=%d shares %v: combination with a signature over another message verifies", n, th, sub)
				}
				if len(sub) >= 2 {
					sw := map[int]tbls.Signature{}
					for k, v := range part {
						sw[k] = v
					}
					sw[sub[0]], sw[sub[1]] = part[sub[1]], part[sub[0]]
					if a3, err := tbls.ThresholdAggregate(sw); err == nil && tbls.Verify(pub, msg, a3) == nil {
						t.Fatalf("n=%d t=%d shares %v: combination with swapped indices verifies", n, th, sub)
					}
				}
				evals += 2
			}
		}
	}
	for n := 2; n <= maxExh; n++ {
		for th := 2; th <= n; th++ {
			secret, err := tbls.GenerateSecretKey()
			must(t, err)
			shares, err := tbls.ThresholdSplit(secret, uint(n), uint(th))
			must(t, err)
			var subsets [][]int
			for mask := 1; mask < 1<<n; mask++ {
				var sub []int
				for i := 0; i < n; i++ {
					if mask&(1<<i) != 0 {
						sub = append(sub, i+1)
					}
				}
				if len(sub) >= th {
					subsets = append(subsets, sub)
				}
			}
			check(n, th, subsets, secret, shares, [][]byte{[]byte("msg-a")})
			shapes++
		}
	}
	// larger clusters (two-digit share indices), sampled subsets always containing the highest indices
	for _, n := range []int{10, 12, 16} {
		for _, th := range []int{2, (2*n + 2) / 3, n} {
			secret, err := tbls.GenerateSecretKey()
			must(t, err)
			shares, err := tbls.ThresholdSplit(secret, uint(n), uint(th))
			must(t, err)
			var subsets [][]int
			for k := 0; k < 6; k++ {
				perm := rng.Perm(n)
				size := th + rng.Intn(n-th+1)
				sub := map[int]bool{n: true}
				if th >= 2 {
					sub[n-1] = k%2 == 0 || th == n
				}
				for _, p := range perm {
					if len(keys(sub)) >= size {
						break
					}
					sub[p+1] = true
				}
				ks := keys(sub)
				if len(ks) < th {
					continue
				}
				subsets = append(subsets, ks)
			}
			check(n, th, subsets, secret, shares, [][]byte{[]byte("msg-b"), {}})
			shapes++
		}
	}
	fmt.Printf("BOUNDED evaluations=%d shapes=%d domain=n<=%d_exhaustive_subsets+n_in_{10,12,16}_sampled seed=%d\n", evals, shapes, maxExh, seed)
}

func keys(m map[int]bool) []int {
	var out []int
	for k, v := range m {
		if v {
			out = append(out, k)
		}
	}
	for i := 0; i < len(out); i++ {
		for j := i + 1; j < len(out); j++ {
			if out[j] < out[i] {
				out[i], out[j] = out[j], out[i]
			}
		}
	}
	return out
}

func must(t *testing.T, err error) {
	t.Helper()
	if err != nil {
		t.Fatal(err)
	}
}
