package cmd

// Bounded stand-in for property C12 (part 2: artifacts written by `create cluster`, and `combine`).
// Labelled bounded; never counted as proved. Runs against the real packages through go test -overlay.
//
// For each shape it runs runCreateCluster into a temp directory and checks: every node holds the same lock and it
// passes full hash and signature verification; every key share stored for node i is the secret of that node's
// public share in the lock; every deposit-data file entry and every partial deposit in the lock verifies under
// the lock's validator key; and `combine` over threshold-sized subsets of node directories writes keystores
// whose public keys are the lock's validator keys.

import (
	"bytes"
	"context"
	"encoding/json"
	"fmt"
	"io"
	"math/rand"
	"os"
	"path/filepath"
	"regexp"
	"strconv"
	"testing"

	eth2p0 "github.com/attestantio/go-eth2-client/spec/phase0"

	"github.com/obolnetwork/charon/cluster"
	"github.com/obolnetwork/charon/cmd/combine"
	"github.com/obolnetwork/charon/eth2util"
	"github.com/obolnetwork/charon/eth2util/deposit"
	"github.com/obolnetwork/charon/eth2util/keystore"
	"github.com/obolnetwork/charon/tbls"
	"github.com/obolnetwork/charon/tbls/tblsconv"
	"github.com/obolnetwork/charon/testutil"
)

type c12cfg struct {
	n, k, dv    int
	network     string
	amounts     []int
	compounding bool
}

func c12copyDir(t *testing.T, src, dst string) {
	t.Helper()
	err := filepath.Walk(src, func(p string, info os.FileInfo, err error) error {
		if err != nil {
			return err
		}
		rel, _ := filepath.Rel(src, p)
		if info.IsDir() {
			return os.MkdirAll(filepath.Join(dst, rel), 0o755)
		}
		in, err := os.Open(p)
		if err != nil {
			return err
		}
		defer in.Close()
		out, err := os.Create(filepath.Join(dst, rel))
		if err != nil {
			return err
		}
		defer out.Close()
		_, err = io.Copy(out, in)
		return err
	})
	if err != nil {
		t.Fatal(err)
	}
}

func TestBoundedC12Create(t *testing.T) {
	seed, _ := strconv.Atoi(os.Getenv("VERIF_SEED"))
	thorough := os.Getenv("VERIF_TIER") == "thorough"
	cfgs := []c12cfg{
		{3, 2, 1, "goerli", nil, false},
		{4, 3, 2, "sepolia", []int{8, 16, 8}, false},
		{7, 5, 1, "mainnet", []int{32, 1}, true},
	}
	if thorough {
		cfgs = nil
		nets := []string{"goerli", "chiado", "mainnet", "sepolia", "hoodi", "gnosis"}
		amts := [][]int{nil, {32}, {16, 16}, {8, 16, 8}, {1, 31}, {32, 1}}
		for n := 3; n <= 10; n++ {
			for ki, k := range []int{cluster.Threshold(n), n, n/2 + 1} {
				cfgs = append(cfgs, c12cfg{n, k, 1 + (n+ki)%3, nets[(n+ki)%len(nets)], amts[(n+2*ki)%len(amts)], (n+ki)%4 == 0})
			}
		}
	}
	ctx := context.Background()
	checks, clusters, combines := 0, 0, 0
	for ci, cfg := range cfgs {
		dir := t.TempDir()
		conf := clusterConfig{
			Name: fmt.Sprintf("c12-%d", ci), ClusterDir: dir, NumNodes: cfg.n, Threshold: cfg.k, NumDVs: cfg.dv,
			Network: cfg.network, InsecureKeys: true, TargetGasLimit: 30000000, DepositAmounts: cfg.amounts,
			Compounding: cfg.compounding,
		}
		for v := 0; v < cfg.dv; v++ {
			conf.FeeRecipientAddrs = append(conf.FeeRecipientAddrs, testutil.RandomETHAddress())
			conf.WithdrawalAddrs = append(conf.WithdrawalAddrs, testutil.RandomETHAddress())
		}
		tag := fmt.Sprintf("n=%d t=%d dv=%d net=%s amounts=%v compounding=%v", cfg.n, cfg.k, cfg.dv, cfg.network, cfg.amounts, cfg.compounding)
		if err := runCreateCluster(ctx, io.Discard, conf); err != nil {
			t.Fatalf("%s: create cluster: %v", tag, err)
		}
		clusters++
		// every node holds the same, fully verifying lock
		var lock cluster.Lock
		var first []byte
		for i := 0; i < cfg.n; i++ {
			b, err := os.ReadFile(filepath.Join(nodeDir(dir, i), "cluster-lock.json"))
			if err != nil {
				t.Fatalf("%s: node %d lock: %v", tag, i, err)
			}
			if i == 0 {
				first = b
				if err := json.Unmarshal(b, &lock); err != nil {
					t.Fatalf("%s: decode lock: %v", tag, err)
				}
			} else if !bytes.Equal(b, first) {
				t.Fatalf("%s: node %d holds a different lock file", tag, i)
			}
		}
		if err := lock.VerifyHashes(); err != nil {
			t.Fatalf("%s: written lock fails VerifyHashes: %v", tag, err)
		}
		if err := lock.VerifySignatures(nil); err != nil {
			t.Fatalf("%s: written lock fails VerifySignatures: %v", tag, err)
		}
		if len(lock.Validators) != cfg.dv || len(lock.Operators) != cfg.n || lock.Threshold != cfg.k {
			t.Fatalf("%s: lock shape %d validators %d operators threshold %d", tag, len(lock.Validators), len(lock.Operators), lock.Threshold)
		}
		checks += 2
		// stored key shares correspond to the node's public shares in the lock
		for i := 0; i < cfg.n; i++ {
			kf, err := keystore.LoadFilesUnordered(filepath.Join(nodeDir(dir, i), "validator_keys"))
			if err != nil {
				t.Fatalf("%s: node %d keystores: %v", tag, i, err)
			}
			secrets, err := kf.SequencedKeys()
			if err != nil {
				t.Fatal(err)
			}
			if len(secrets) != cfg.dv {
				t.Fatalf("%s: node %d has %d key shares", tag, i, len(secrets))
			}
			for v, s := range secrets {
				pub, err := tbls.SecretToPublicKey(s)
				if err != nil {
					t.Fatal(err)
				}
				if !bytes.Equal(pub[:], lock.Validators[v].PubShares[i]) {
					t.Fatalf("%s: key share %d stored for node %d is not the secret of that node's public share in the lock", tag, v, i)
				}
				checks++
			}
		}
		// deposit data: files and lock entries verify under the lock's validator keys
		network, err := eth2util.ForkVersionToNetwork(lock.ForkVersion)
		if err != nil {
			t.Fatal(err)
		}
		verifyDD := func(where string, pk eth2p0.BLSPubKey, wc []byte, amount eth2p0.Gwei, sig eth2p0.BLSSignature, v int) {
			if !bytes.Equal(pk[:], lock.Validators[v].PubKey) {
				t.Fatalf("%s: %s: deposit pubkey is not the lock's validator %d key", tag, where, v)
			}
			want, err := deposit.NewMessage(pk, lock.ValidatorAddresses[v].WithdrawalAddress, amount, lock.Compounding)
			if err != nil {
				t.Fatal(err)
			}
			if !bytes.Equal(want.WithdrawalCredentials, wc) {
				t.Fatalf("%s: %s: withdrawal credentials do not match the lock's withdrawal address of validator %d", tag, where, v)
			}
			root, err := deposit.GetMessageSigningRoot(want, network)
			if err != nil {
				t.Fatal(err)
			}
			pub, err := tblsconv.PubkeyFromBytes(pk[:])
			if err != nil {
				t.Fatal(err)
			}
			if err := tbls.Verify(pub, root[:], tbls.Signature(sig)); err != nil {
				t.Fatalf("%s: %s: deposit signature of validator %d does not verify: %v", tag, where, v, err)
			}
			checks++
		}
		for v, val := range lock.Validators {
			if len(val.PartialDepositData) == 0 {
				t.Fatalf("%s: validator %d has no deposit data in the lock", tag, v)
			}
			var sum int
			for _, dd := range val.PartialDepositData {
				verifyDD("lock", eth2p0.BLSPubKey(dd.PubKey), dd.WithdrawalCredentials, eth2p0.Gwei(dd.Amount), eth2p0.BLSSignature(dd.Signature), v)
				sum += dd.Amount
			}
			_ = sum
		}
		for i := 0; i < cfg.n; i++ {
			sets, err := deposit.ReadDepositDataFiles(nodeDir(dir, i))
			if err != nil {
				t.Fatalf("%s: node %d deposit files: %v", tag, i, err)
			}
			if len(sets) != len(lock.Validators[0].PartialDepositData) {
				t.Fatalf("%s: node %d has %d deposit files, lock has %d partial amounts", tag, i, len(sets), len(lock.Validators[0].PartialDepositData))
			}
			for _, set := range sets {
				if len(set) != cfg.dv {
					t.Fatalf("%s: node %d deposit file has %d entries", tag, i, len(set))
				}
				for _, dd := range set {
					v := -1
					for vi, val := range lock.Validators {
						if bytes.Equal(val.PubKey, dd.PublicKey[:]) {
							v = vi
						}
					}
					if v < 0 {
						t.Fatalf("%s: node %d deposit file entry for a key that is not in the lock", tag, i)
					}
					verifyDD(fmt.Sprintf("node%d deposit file", i), dd.PublicKey, dd.WithdrawalCredentials, dd.Amount, dd.Signature, v)
				}
			}
		}
		// combine over threshold-sized subsets of the node directories
		windows := []int{0, cfg.n - 1}
		if thorough {
			windows = nil
			for s := 0; s < cfg.n; s++ {
				windows = append(windows, s)
			}
		}
		for _, start := range windows {
			in, out := t.TempDir(), t.TempDir()
			for j := 0; j < cfg.k; j++ {
				i := (start + j) % cfg.n
				c12copyDir(t, nodeDir(dir, i), filepath.Join(in, fmt.Sprintf("node%d", i)))
			}
			if err := combine.Combine(ctx, in, out, true, false, "", eth2util.Network{}, combine.WithInsecureKeysForT(t)); err != nil {
				t.Fatalf("%s: combine of %d node directories from %d: %v", tag, cfg.k, start, err)
			}
			kf, err := keystore.LoadFilesUnordered(out)
			if err != nil {
				t.Fatal(err)
			}
			secrets, err := kf.SequencedKeys()
			if err != nil {
				t.Fatal(err)
			}
			if len(secrets) != cfg.dv {
				t.Fatalf("%s: combine wrote %d keys", tag, len(secrets))
			}
			for v, s := range secrets {
				pub, err := tbls.SecretToPublicKey(s)
				if err != nil {
					t.Fatal(err)
				}
				if !bytes.Equal(pub[:], lock.Validators[v].PubKey) {
					t.Fatalf("%s: combined key %d (nodes from %d) is not the private key of the lock's validator key", tag, v, start)
				}
				checks++
			}
			combines++
		}
		_ = seed
	}
	// create cluster --definition-file: (a) solo definitions (no operator addresses, what the repository's tests use) and
	// (b) valid, signed definitions whose operators carry addresses, for format versions with EIP-712 signatures
	var failures []string
	defVersions := []string{"v1.10.0"} // the fixture builder sets a target gas limit: v1.10 or later
	if thorough {
		defVersions = []string{"v1.10.0", "v1.11.0"}
	}
	for vi, version := range defVersions {
		for _, signed := range []bool{false, true} {
			rnd := rand.New(rand.NewSource(int64(seed + vi + 1)))
			opts := []func(*cluster.Definition){cluster.WithVersion(version), cluster.WithLegacyVAddrs(testutil.RandomChecksummedETHAddress(t, vi+1), testutil.RandomChecksummedETHAddress(t, vi+2))}
			lock0, _, _ := cluster.NewForT(t, 2, 3, 4, seed+vi+1, rnd, opts...)
			def := lock0.Definition
			kind := "signed-operators"
			if !signed {
				kind = "solo"
				for i := range def.Operators {
					def.Operators[i] = cluster.Operator{}
				}
				def.Creator = cluster.Creator{}
				var err error
				if def, err = def.SetDefinitionHashes(); err != nil {
					t.Fatal(err)
				}
			}
			tag := fmt.Sprintf("definition-file %s %s", version, kind)
			if err := def.VerifyHashes(); err != nil {
				t.Fatalf("%s: fixture: %v", tag, err)
			}
			if err := def.VerifySignatures(nil); err != nil {
				t.Fatalf("%s: fixture signatures: %v", tag, err)
			}
			b, err := json.Marshal(def)
			if err != nil {
				t.Fatal(err)
			}
			defPath := filepath.Join(t.TempDir(), "cluster-definition.json")
			if err := os.WriteFile(defPath, b, 0o600); err != nil {
				t.Fatal(err)
			}
			dir := t.TempDir()
			if err := runCreateCluster(ctx, io.Discard, clusterConfig{DefFile: defPath, ClusterDir: dir, InsecureKeys: true, Network: "goerli"}); err != nil {
				// refusing a definition is consistent; writing an inconsistent artifact is not
				continue
			}
			clusters++
			lb, err := os.ReadFile(filepath.Join(nodeDir(dir, 0), "cluster-lock.json"))
			if err != nil {
				t.Fatal(err)
			}
			var lock cluster.Lock
			if err := json.Unmarshal(lb, &lock); err != nil {
				failures = append(failures, fmt.Sprintf("%s: written lock does not decode: %v", tag, err))
				continue
			}
			if err := lock.VerifyHashes(); err != nil {
				failures = append(failures, fmt.Sprintf("%s: written lock fails VerifyHashes: %v", tag, err))
			}
			if err := lock.VerifySignatures(nil); err != nil {
				failures = append(failures, fmt.Sprintf("%s: written lock fails VerifySignatures: %v", tag, err))
			}
			checks += 2
		}
	}
	fmt.Printf("BOUNDED evaluations=%d clusters=%d combines=%d domain=create-cluster_shapes_%d(n_3..10),threshold-sized_node_subsets,definition-file_versions_%d(solo+signed-operators) seed=%d\n", checks, clusters, combines, len(cfgs), len(defVersions), seed)
	// recorded known findings (never added at run time): failures of exactly these classes are reported as such
	type kf struct{ Kind, Property, Obligation, What, Match string }
	var known []kf
	root := os.Getenv("VERIF_ROOT")
	if root == "" {
		root = "/verif"
	}
	if kb, err := os.ReadFile(root + "/known_findings.json"); err == nil {
		_ = json.Unmarshal(kb, &known)
	}
	reported := map[string]bool{}
	for _, f := range failures {
		matched := false
		for _, k := range known {
			if k.Kind == "known" && k.Property == "C12" && k.Match != "" {
				if ok, _ := regexp.MatchString(k.Match, f); ok {
					matched = true
					if !reported[k.Obligation] {
						reported[k.Obligation] = true
						fmt.Printf("KNOWN-FINDING: property=C12 %s [%s]\n", k.What, k.Obligation)
					}
				}
			}
		}
		if !matched {
			t.Errorf("%s", f)
		}
	}
}
