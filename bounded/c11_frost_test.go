package dkg

// Bounded stand-in for property C11 (assumed contract A-FROST of kryptology's DkgParticipant.Round1/Round2):
// in-process ceremonies over the package's in-memory transport. Labelled bounded; never counted as proved.

import (
	"context"
	"fmt"
	"os"
	"strconv"
	"sync"
	"testing"

	"github.com/obolnetwork/charon/dkg/share"
	"github.com/obolnetwork/charon/tbls"
)

func TestBoundedC11(t *testing.T) {
	seed, _ := strconv.ParseInt(os.Getenv("VERIF_SEED"), 10, 64)
	thorough := os.Getenv("VERIF_TIER") == "thorough"
	maxN, maxVals := 5, 2
	if thorough {
		maxN, maxVals = 8, 4
	}
	ceremonies, checks := 0, 0
	for n := 3; n <= maxN; n++ {
		for th := 2; th <= n; th++ {
			for vals := 1; vals <= maxVals; vals++ {
				if !thorough && vals == 2 && (n+th)%2 == 1 {
					continue
				}
				ctx, cancel := context.WithCancel(context.Background())
				tp := &frostMemTransport{nodes: n}
				res := make([][]share.Share, n)
				errs := make([]error, n)
				var wg sync.WaitGroup
				for i := 0; i < n; i++ {
					wg.Add(1)
					go func(i int) {
						defer wg.Done()
						res[i], errs[i] = runFrostParallel(ctx, tp, uint32(vals), uint32(n), uint32(th), uint32(i+1), fmt.Sprintf("ctx-%d", seed))
						if errs[i] != nil {
							cancel()
						}
					}(i)
				}
				wg.Wait()
				cancel()
				for i, err := range errs {
					if err != nil {
						t.Fatalf("n=%d t=%d vals=%d node %d: %v", n, th, vals, i, err)
					}
				}
				ceremonies++
				for v := 0; v < vals; v++ {
					group := res[0][v].PubKey
					msg := []byte(fmt.Sprintf("msg-%d-%d", v, seed))
					for i := 0; i < n; i++ {
						s := res[i][v]
						if s.PubKey != group {
							t.Fatalf("n=%d t=%d val %d: node %d holds a different group public key", n, th, v, i)
						}
						if len(s.PublicShares) != n {
							t.Fatalf("n=%d t=%d val %d: node %d has %d public shares", n, th, v, i, len(s.PublicShares))
						}
						for idx, ps := range res[0][v].PublicShares {
							if s.PublicShares[idx] != ps {
								t.Fatalf("n=%d t=%d val %d: nodes 0 and %d disagree on public share %d", n, th, v, i, idx)
							}
						}
						pub, err := tbls.SecretToPublicKey(s.SecretShare)
						if err != nil {
							t.Fatal(err)
						}
						if pub != s.PublicShares[i+1] {
							t.Fatalf("n=%d t=%d val %d: node %d secret share does not match its published public share", n, th, v, i)
						}
						checks++
					}
					// every window of t consecutive share indices (cyclic) reconstructs / signs for the group key
					for start := 0; start < n; start++ {
						pubs := map[int]tbls.PublicKey{}
						sigs := map[int]tbls.Signature{}
						for k := 0; k < th; k++ {
							i := (start + k) % n
							pubs[i+1] = res[i][v].PublicShares[i+1]
							sig, err := tbls.Sign(res[i][v].SecretShare, msg)
							if err != nil {
								t.Fatal(err)
							}
							sigs[i+1] = sig
						}
						rec, err := tbls.RecoverPubkey(pubs)
						if err != nil {
							t.Fatal(err)
						}
						if rec != group {
							t.Fatalf("n=%d t=%d val %d: public shares %v do not reconstruct the group key", n, th, v, keysOf(pubs))
						}
						agg, err := tbls.ThresholdAggregate(sigs)
						if err != nil {
							t.Fatal(err)
						}
						if err := tbls.Verify(group, msg, agg); err != nil {
							t.Fatalf("n=%d t=%d val %d: partial signatures of shares %v do not combine to a group-valid signature", n, th, v, keysOf(pubs))
						}
						checks += 2
					}
				}
			}
		}
	}
	fmt.Printf("BOUNDED evaluations=%d ceremonies=%d domain=n_3..%d,t_2..n,validators_1..%d,cyclic_t-subsets seed=%d\n", checks, ceremonies, maxN, maxVals, seed)
}

func keysOf(m map[int]tbls.PublicKey) []int {
	var out []int
	for k := range m {
		out = append(out, k)
	}
	return out
}
