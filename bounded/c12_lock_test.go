package cluster

// Bounded stand-in for property C12 (part 1: lock/definition consistency and tamper evidence).
// Labelled bounded; never counted as proved. Runs against the real package through go test -overlay.
//
// For every supported format version and a set of cluster shapes it builds a fully signed lock, checks that it
// verifies, that every node's share matches its public share in the lock and that threshold subsets recombine to
// the validator key, that decode->encode is byte- and hash-stable, and then alters every JSON leaf of the lock
// (and of the stand-alone definition) in several representative ways and demands that decoding or verification
// fails -- unless the alteration decodes to exactly the same lock (a change of representation, not of a field).

import (
	"bytes"
	"encoding/json"
	"fmt"
	"math/rand"
	"os"
	"regexp"
	"sort"
	"strconv"
	"strings"
	"testing"

	eth2p0 "github.com/attestantio/go-eth2-client/spec/phase0"
	k1 "github.com/decred/dcrd/dcrec/secp256k1/v4"

	"github.com/obolnetwork/charon/app/k1util"
	"github.com/obolnetwork/charon/eth2util"
	"github.com/obolnetwork/charon/eth2util/deposit"
	"github.com/obolnetwork/charon/tbls"
	"github.com/obolnetwork/charon/testutil"
)

type c12shape struct{ n, k, dv int }

func c12versions() []string {
	var vs []string
	for v := range supportedVersions {
		vs = append(vs, v)
	}
	sort.Slice(vs, func(i, j int) bool {
		a, _ := strconv.Atoi(strings.Split(vs[i], ".")[1])
		b, _ := strconv.Atoi(strings.Split(vs[j], ".")[1])
		return a < b
	})
	return vs
}

// c12build returns a fully signed, verifying lock of the given version and shape.
func c12build(t *testing.T, version string, sh c12shape, seed int) (Lock, []*k1.PrivateKey, [][]tbls.PrivateKey) {
	t.Helper()
	r := rand.New(rand.NewSource(int64(seed)))
	opts := []func(*Definition){WithVersion(version)}
	if isAnyVersion(version, v1_0, v1_1, v1_2, v1_3, v1_4) {
		opts = append(opts, WithLegacyVAddrs(testutil.RandomETHAddressSeed(r), testutil.RandomETHAddressSeed(r)))
	}
	if !supportTargetGasLimit(version) {
		opts = append(opts, func(d *Definition) { d.TargetGasLimit = 0 })
	}
	lock, p2pKeys, dvShares := NewForT(t, sh.dv, sh.k, sh.n, seed, r, opts...)
	def := lock.Definition
	// shape the definition as the version's schema allows
	if isAnyVersion(version, v1_0, v1_1, v1_2, v1_3) {
		def.Creator = Creator{}
	}
	if !isAnyVersion(version, v1_10, v1_11) {
		def.TargetGasLimit = 0
	}
	if isAnyVersion(version, v1_9, v1_10, v1_11) {
		def.ConsensusProtocol = "qbft"
	}
	if isAnyVersion(version, v1_8, v1_9, v1_10, v1_11) {
		def.DepositAmounts = []eth2p0.Gwei{32000000000, 1000000000 * eth2p0.Gwei(1+seed%3)}
	}
	var err error
	for i := range def.Operators {
		def.Operators[i].ConfigSignature, def.Operators[i].ENRSignature = ethHex{}, ethHex{}
	}
	def.Creator.ConfigSignature = nil
	// the config hash (signed by operators and creator) excludes signatures: fix it before signing
	def, err = def.SetDefinitionHashes()
	if err != nil {
		t.Fatal(err)
	}
	if supportEIP712Sigs(version) {
		for i := range def.Operators {
			def.Operators[i], err = signOperator(p2pKeys[i], def, def.Operators[i])
			if err != nil {
				t.Fatal(err)
			}
		}
		if !isAnyVersion(version, v1_3) {
			def, err = signCreator(p2pKeys[0], def)
			if err != nil {
				t.Fatal(err)
			}
		}
	}
	def, err = def.SetDefinitionHashes()
	if err != nil {
		t.Fatal(err)
	}
	lock.Definition = def
	// deposit data for versions that carry it
	if !isAnyVersion(version, v1_0, v1_1, v1_2, v1_3, v1_4, v1_5) {
		network, err := eth2util.ForkVersionToNetwork(def.ForkVersion)
		if err != nil {
			t.Fatal(err)
		}
		amounts := []eth2p0.Gwei{32000000000}
		if len(def.DepositAmounts) > 0 {
			amounts = def.DepositAmounts
		}
		if isAnyVersion(version, v1_6, v1_7) {
			amounts = amounts[:1]
		}
		for vi := range lock.Validators {
			shares := map[int]tbls.PrivateKey{}
			for i := 0; i < sh.k; i++ {
				shares[i+1] = dvShares[vi][i]
			}
			root, err := tbls.RecoverSecret(shares, uint(sh.n), uint(sh.k))
			if err != nil {
				t.Fatal(err)
			}
			var dds []DepositData
			for _, amt := range amounts {
				msg, err := deposit.NewMessage(eth2p0.BLSPubKey(lock.Validators[vi].PubKey), def.ValidatorAddresses[vi].WithdrawalAddress, amt, def.Compounding)
				if err != nil {
					t.Fatal(err)
				}
				sr, err := deposit.GetMessageSigningRoot(msg, network)
				if err != nil {
					t.Fatal(err)
				}
				sig, err := tbls.Sign(root, sr[:])
				if err != nil {
					t.Fatal(err)
				}
				dds = append(dds, DepositData{PubKey: msg.PublicKey[:], WithdrawalCredentials: msg.WithdrawalCredentials, Amount: int(msg.Amount), Signature: sig[:]})
			}
			lock.Validators[vi].PartialDepositData = dds
		}
	}
	if isAnyVersion(version, v1_0, v1_1, v1_2, v1_3, v1_4, v1_5, v1_6) {
		for vi := range lock.Validators {
			lock.Validators[vi].BuilderRegistration = BuilderRegistration{}
		}
	}
	lock.SignatureAggregate, lock.NodeSignatures = nil, nil
	lock, err = lock.SetLockHash()
	if err != nil {
		t.Fatal(err)
	}
	lock.SignatureAggregate, err = aggSign(dvShares, lock.LockHash)
	if err != nil {
		t.Fatal(err)
	}
	if !isAnyVersion(version, v1_0, v1_1, v1_2, v1_3, v1_4, v1_5, v1_6) {
		for _, key := range p2pKeys {
			sig, err := k1util.Sign(key, lock.LockHash)
			if err != nil {
				t.Fatal(err)
			}
			lock.NodeSignatures = append(lock.NodeSignatures, sig)
		}
	}
	return lock, p2pKeys, dvShares
}

type c12alt struct {
	doc  []byte
	path string
	how  string
}

var c12hex = regexp.MustCompile(`^0x[0-9a-fA-F]*$`)

// c12alterations returns representative single-leaf alterations of a JSON document.
func c12alterations(doc []byte, maxPerArray int) []c12alt {
	var root any
	dec := json.NewDecoder(bytes.NewReader(doc))
	dec.UseNumber()
	if err := dec.Decode(&root); err != nil {
		return nil
	}
	var out []c12alt
	emit := func(path, how string) {
		b, err := json.Marshal(root)
		if err == nil {
			out = append(out, c12alt{b, path, how})
		}
	}
	var walk func(path string, node any, set func(any))
	walk = func(path string, node any, set func(any)) {
		switch n := node.(type) {
		case map[string]any:
			keys := make([]string, 0, len(n))
			for k := range n {
				keys = append(keys, k)
			}
			sort.Strings(keys)
			for _, k := range keys {
				v := n[k]
				walk(path+"."+k, v, func(x any) { n[k] = x })
				n[k] = v
			}
		case []any:
			for i := range n {
				if i >= maxPerArray && i != len(n)-1 {
					continue
				}
				v := n[i]
				walk(fmt.Sprintf("%s[%d]", path, i), v, func(x any) { n[i] = x })
				n[i] = v
			}
			if len(n) > 0 {
				set(n[:len(n)-1])
				emit(path, "drop last element")
				set(append(append([]any{}, n...), n[len(n)-1]))
				emit(path, "duplicate last element")
				if len(n) > 1 {
					sw := append([]any{}, n...)
					sw[0], sw[len(sw)-1] = sw[len(sw)-1], sw[0]
					set(sw)
					emit(path, "swap first and last element")
				}
				set(n)
			}
		case string:
			alts := map[string]string{}
			if c12hex.MatchString(n) && len(n) > 2 {
				body := n[2:]
				flipc := func(c byte) byte {
					if c == '0' {
						return '1'
					}
					return '0'
				}
				b := []byte(body)
				b[len(b)-1] = flipc(b[len(b)-1])
				alts["flip last nibble"] = "0x" + string(b)
				b = []byte(body)
				b[0] = flipc(b[0])
				alts["flip first nibble"] = "0x" + string(b)
				b = []byte(body)
				b[len(b)/2] = flipc(b[len(b)/2])
				alts["flip middle nibble"] = "0x" + string(b)
				alts["prepend zero byte"] = "0x00" + body
				alts["append zero byte"] = "0x" + body + "00"
				if len(body) > 2 {
					alts["drop first byte"] = "0x" + body[2:]
					alts["drop last byte"] = "0x" + body[:len(body)-2]
				}
				alts["empty"] = ""
			} else if n != "" {
				b := []byte(n)
				if b[len(b)-1] == 'a' {
					b[len(b)-1] = 'b'
				} else {
					b[len(b)-1] = 'a'
				}
				alts["change last char"] = string(b)
				alts["append char"] = n + "a"
				alts["empty"] = ""
			} else {
				alts["non-empty"] = "a"
			}
			hows := make([]string, 0, len(alts))
			for h := range alts {
				hows = append(hows, h)
			}
			sort.Strings(hows)
			for _, h := range hows {
				set(alts[h])
				emit(path, h)
			}
			set(n)
		case json.Number:
			if i, err := n.Int64(); err == nil {
				set(json.Number(strconv.FormatInt(i+1, 10)))
				emit(path, "plus one")
				if i > 0 {
					set(json.Number(strconv.FormatInt(i-1, 10)))
					emit(path, "minus one")
				}
			}
			set(n)
		case bool:
			set(!n)
			emit(path, "negate")
			set(n)
		}
	}
	walk("$", root, func(x any) { root = x })
	return out
}

func TestBoundedC12Lock(t *testing.T) {
	seed, _ := strconv.Atoi(os.Getenv("VERIF_SEED"))
	thorough := os.Getenv("VERIF_TIER") == "thorough"
	shapes := []c12shape{{3, 2, 1}, {4, 3, 2}}
	if thorough {
		shapes = nil
		for n := 3; n <= 10; n++ {
			for _, k := range []int{Threshold(n), n} {
				shapes = append(shapes, c12shape{n, k, 1 + n%3})
			}
		}
	}
	// recorded known findings (never added at run time): kind "known", property C12, "match" = regex over
	// <lock|definition><json path>@<alteration>@<version>
	var knownRe *regexp.Regexp
	{
		type kf struct{ Kind, Property, Match string }
		var known []kf
		root := os.Getenv("VERIF_ROOT")
		if root == "" {
			root = "/verif"
		}
		if b, err := os.ReadFile(root + "/known_findings.json"); err == nil {
			_ = json.Unmarshal(b, &known)
		}
		var res []string
		for _, k := range known {
			if k.Kind == "known" && k.Property == "C12" && k.Match != "" {
				res = append(res, "(?:"+k.Match+")")
			}
		}
		if len(res) > 0 {
			knownRe = regexp.MustCompile(strings.Join(res, "|"))
		}
	}
	locks, alterations, detected, samevalue, knownHits := 0, 0, 0, 0, map[string]int{}
	var undetected []string
	for _, version := range c12versions() {
		for si, sh := range shapes {
			lock, _, dvShares := c12build(t, version, sh, seed*100+si+1)
			locks++
			if err := lock.VerifyHashes(); err != nil {
				t.Fatalf("%s %v: built lock fails VerifyHashes: %v", version, sh, err)
			}
			if err := lock.VerifySignatures(nil); err != nil {
				t.Fatalf("%s %v: built lock fails VerifySignatures: %v", version, sh, err)
			}
			// shares <-> public shares; threshold recombination
			for vi, val := range lock.Validators {
				for ni := 0; ni < sh.n; ni++ {
					pub, err := tbls.SecretToPublicKey(dvShares[vi][ni])
					if err != nil {
						t.Fatal(err)
					}
					if !bytes.Equal(pub[:], val.PubShares[ni]) {
						t.Fatalf("%s %v: validator %d node %d share does not match lock public share", version, sh, vi, ni)
					}
				}
				for start := 0; start < sh.n; start++ {
					sub := map[int]tbls.PrivateKey{}
					for j := 0; j < sh.k; j++ {
						i := (start + j) % sh.n
						sub[i+1] = dvShares[vi][i]
					}
					sec, err := tbls.RecoverSecret(sub, uint(sh.n), uint(sh.k))
					if err != nil {
						t.Fatal(err)
					}
					pub, err := tbls.SecretToPublicKey(sec)
					if err != nil {
						t.Fatal(err)
					}
					if !bytes.Equal(pub[:], val.PubKey) {
						t.Fatalf("%s %v: validator %d shares from %d do not recombine to the lock's validator key", version, sh, vi, start)
					}
				}
			}
			// decode -> encode stability
			b1, err := json.Marshal(lock)
			if err != nil {
				t.Fatal(err)
			}
			var l2 Lock
			if err := json.Unmarshal(b1, &l2); err != nil {
				t.Fatalf("%s: decode of encoded lock: %v", version, err)
			}
			b2, err := json.Marshal(l2)
			if err != nil {
				t.Fatal(err)
			}
			if !bytes.Equal(b1, b2) {
				t.Fatalf("%s %v: decode then encode changed the lock file", version, sh)
			}
			if !bytes.Equal(l2.LockHash, lock.LockHash) || !bytes.Equal(l2.DefinitionHash, lock.DefinitionHash) || !bytes.Equal(l2.ConfigHash, lock.ConfigHash) {
				t.Fatalf("%s %v: decode then encode changed a hash", version, sh)
			}
			if err := l2.VerifyHashes(); err != nil {
				t.Fatalf("%s %v: decoded lock fails VerifyHashes: %v", version, sh, err)
			}
			if err := l2.VerifySignatures(nil); err != nil {
				t.Fatalf("%s %v: decoded lock fails VerifySignatures: %v", version, sh, err)
			}
			// tamper evidence: lock
			check := func(kind string, orig []byte, alts []c12alt, verify func(doc []byte) (same bool, err error)) {
				for _, a := range alts {
					alterations++
					same, err := verify(a.doc)
					if err != nil {
						detected++
						continue
					}
					if same {
						samevalue++
						continue
					}
					id := fmt.Sprintf("%s%s@%s@%s", kind, a.path, a.how, version)
					if a.path == "$.signature_aggregate" && a.how == "empty" && isAnyVersion(version, v1_0, v1_1) {
						// not a hashed or signed field: it is the signature itself, and v1.0/v1.1 locks are
						// documented (Lock.VerifySignatures) to be valid without it
						samevalue++
						continue
					}
					if knownRe != nil && knownRe.MatchString(id) {
						knownHits[regexp.MustCompile(`\[\d+\]`).ReplaceAllString(kind+a.path, "[]")+"@"+a.how]++
						continue
					}
					undetected = append(undetected, id)
				}
			}
			check("lock", b1, c12alterations(b1, 2), func(doc []byte) (bool, error) {
				var l Lock
				if err := json.Unmarshal(doc, &l); err != nil {
					return false, err
				}
				if err := l.VerifyHashes(); err != nil {
					return false, err
				}
				if err := l.VerifySignatures(nil); err != nil {
					return false, err
				}
				rb, err := json.Marshal(l)
				if err != nil {
					return false, err
				}
				return bytes.Equal(rb, b1), nil
			})
			// tamper evidence: stand-alone definition
			d1, err := json.Marshal(lock.Definition)
			if err != nil {
				t.Fatal(err)
			}
			check("definition", d1, c12alterations(d1, 2), func(doc []byte) (bool, error) {
				var d Definition
				if err := json.Unmarshal(doc, &d); err != nil {
					return false, err
				}
				if err := d.VerifyHashes(); err != nil {
					return false, err
				}
				if err := d.VerifySignatures(nil); err != nil {
					return false, err
				}
				rb, err := json.Marshal(d)
				if err != nil {
					return false, err
				}
				return bytes.Equal(rb, d1), nil
			})
		}
	}
	keys := make([]string, 0, len(knownHits))
	for k := range knownHits {
		keys = append(keys, k)
	}
	sort.Strings(keys)
	for _, k := range keys {
		fmt.Printf("KNOWN-FINDING: property=C12 alteration passes verification: %s (%d instances)\n", k, knownHits[k])
	}
	fmt.Printf("BOUNDED evaluations=%d locks=%d detected=%d same_value=%d domain=versions_v1.0..v1.11,shapes_%d,every_json_leaf_x_representative_alterations seed=%d\n",
		alterations, locks, detected, samevalue, len(shapes), seed)
	if len(undetected) > 0 {
		sort.Strings(undetected)
		max := len(undetected)
		if max > 60 {
			max = 60
		}
		t.Fatalf("%d alterations of a hashed/signed field pass decoding and full verification, e.g.:\n%s", len(undetected), strings.Join(undetected[:max], "\n"))
	}
}
