package core_test

// Bounded stand-in for property C14 (assumed contracts of encoding/json, go-eth2-client, fastssz, protobuf):
//  (1) round trip / determinism / clone equality of every signed-data type over sampled values incl. a sweep of the
//      leading encoded byte; (2) totality: every single-node JSON mutation and every SSZ truncation of valid objects
//      is either rejected by the decoder or decodes to a value on which no consumer method panics.
// Labelled bounded; never counted as proved.

import (
	"bytes"
	"context"
	"encoding/json"
	"fmt"
	"os"
	"regexp"
	"sort"
	"strconv"
	"strings"
	"testing"

	eth2spec "github.com/attestantio/go-eth2-client/spec"
	eth2p0 "github.com/attestantio/go-eth2-client/spec/phase0"

	"github.com/obolnetwork/charon/core"
	pbv1 "github.com/obolnetwork/charon/core/corepb/v1"
	"github.com/obolnetwork/charon/testutil"
	"github.com/obolnetwork/charon/tbls"
	"github.com/obolnetwork/charon/testutil/beaconmock"
)

type c14case struct {
	name string
	typ  core.DutyType
	data core.SignedData
}

// legacyAtt is an attestation without validator index (legacy SSZ layout) for the given slot.
func legacyAtt(t *testing.T, version eth2spec.DataVersion, slot eth2p0.Slot) core.SignedData {
	att := testutil.RandomPhase0Attestation()
	att.Data.Slot = slot
	va := &eth2spec.VersionedAttestation{Version: version}
	switch version {
	case eth2spec.DataVersionPhase0:
		va.Phase0 = att
	case eth2spec.DataVersionCapella:
		va.Capella = att
	default:
		va.Version = eth2spec.DataVersionDeneb
		va.Deneb = att
	}
	d, err := core.NewVersionedAttestation(va)
	if err != nil {
		t.Fatal(err)
	}
	return d
}

func c14cases(t *testing.T) []c14case {
	return []c14case{
		{"att-legacy-phase0", core.DutyAttester, legacyAtt(t, eth2spec.DataVersionPhase0, 1000000)},
		{"att-legacy-capella", core.DutyAttester, legacyAtt(t, eth2spec.DataVersionCapella, 7)},
		{"att-legacy-deneb-slot20", core.DutyAttester, legacyAtt(t, eth2spec.DataVersionDeneb, 20)},
		{"att-legacy-deneb-slot12", core.DutyAttester, legacyAtt(t, eth2spec.DataVersionDeneb, 12)},
		{"att-legacy-deneb-slot20hi", core.DutyAttester, legacyAtt(t, eth2spec.DataVersionDeneb, 20+(1<<32))},
		{"att-deneb", core.DutyAttester, testutil.RandomDenebCoreVersionedAttestation()},
		{"att-electra", core.DutyAttester, testutil.RandomElectraCoreVersionedAttestation()},
		{"att-fulu", core.DutyAttester, testutil.RandomFuluCoreVersionedAttestation()},
		{"prop-bellatrix", core.DutyProposer, testutil.RandomBellatrixCoreVersionedSignedProposal()},
		{"prop-capella", core.DutyProposer, testutil.RandomCapellaCoreVersionedSignedProposal()},
		{"prop-deneb", core.DutyProposer, testutil.RandomDenebCoreVersionedSignedProposal()},
		{"prop-electra", core.DutyProposer, testutil.RandomElectraCoreVersionedSignedProposal()},
		{"prop-fulu", core.DutyProposer, testutil.RandomFuluCoreVersionedSignedProposal()},
		{"prop-deneb-blinded", core.DutyProposer, testutil.RandomDenebVersionedSignedBlindedProposal()},
		{"prop-electra-blinded", core.DutyProposer, testutil.RandomElectraVersionedSignedBlindedProposal()},
		{"registration", core.DutyBuilderRegistration, testutil.RandomCoreVersionedSignedValidatorRegistration(t)},
		{"exit", core.DutyExit, core.NewSignedVoluntaryExit(testutil.RandomExit())},
		{"randao", core.DutyRandao, testutil.RandomCoreSignedRandao()},
		{"signature", core.DutySignature, testutil.RandomCoreSignature()},
		{"prepare-aggregator", core.DutyPrepareAggregator, testutil.RandomCoreBeaconCommitteeSelection()},
		{"aggregator", core.DutyAggregator, core.NewVersionedSignedAggregateAndProof(testutil.RandomDenebVersionedSignedAggregateAndProof())},
		{"sync-message", core.DutySyncMessage, core.NewSignedSyncMessage(testutil.RandomSyncCommitteeMessage())},
		{"prepare-sync-contribution", core.DutyPrepareSyncContribution, testutil.RandomCoreSyncCommitteeSelection()},
		{"sync-contribution", core.DutySyncContribution, testutil.RandomCoreSignedSyncContributionAndProof()},
	}
}

// consume calls every method the receive/verify/store/re-encode paths call on a decoded value.
var c14pub tbls.PublicKey

func consume(ctx context.Context, bmock beaconmock.Mock, d core.ParSignedData) (panicked string) {
	try := func(name string, fn func()) {
		defer func() {
			if r := recover(); r != nil && panicked == "" {
				panicked = fmt.Sprintf("%s: %v", name, r)
			}
		}()
		fn()
	}
	try("MessageRoot", func() { _, _ = d.MessageRoot() })
	try("Signature", func() { _ = d.Signature() })
	try("Clone", func() { _, _ = d.Clone() })
	try("MarshalJSON", func() { _, _ = d.MarshalJSON() })
	try("SetSignature", func() { _, _ = d.SetSignature(testutil.RandomCoreSignature()) })
	try("ToProto", func() { _, _ = core.ParSignedDataToProto(d) })
	if e, ok := d.SignedData.(core.Eth2SignedData); ok {
		try("DomainName", func() { _ = e.DomainName() })
		try("Epoch", func() { _, _ = e.Epoch(ctx, bmock) })
		try("VerifyEth2SignedData", func() { _ = core.VerifyEth2SignedData(ctx, bmock, e, c14pub) })
	}
	return panicked
}

// mutants returns the single-node mutations of a JSON document.
type mutant struct {
	doc  []byte
	desc string
}

func mutants(doc []byte, maxNodes int) []mutant {
	var root any
	if err := json.Unmarshal(doc, &root); err != nil {
		return nil
	}
	repl := []any{nil, map[string]any{}, []any{}, "x", float64(1)}
	var out []mutant
	count := 0
	var walk func(path string, node any, set func(any), del func())
	emit := func(desc string) {
		if b, err := json.Marshal(root); err == nil {
			out = append(out, mutant{b, desc})
		}
	}
	walk = func(path string, node any, set func(any), del func()) {
		if count >= maxNodes {
			return
		}
		count++
		for _, r := range repl {
			set(r)
			rb, _ := json.Marshal(r)
			emit(path + "=" + string(rb))
		}
		if del != nil {
			del()
			emit(path + " removed")
		}
		set(node)
		switch n := node.(type) {
		case map[string]any:
			keys := make([]string, 0, len(n))
			for k := range n {
				keys = append(keys, k)
			}
			sort.Strings(keys)
			for _, k := range keys {
				v := n[k]
				walk(path+"."+k, v, func(x any) { n[k] = x }, func() { delete(n, k) })
				n[k] = v
			}
		case []any:
			for i := range n {
				v := n[i]
				if i > 2 {
					break
				}
				walk(fmt.Sprintf("%s[%d]", path, i), v, func(x any) { n[i] = x }, nil)
				n[i] = v
			}
		}
	}
	walk("$", root, func(x any) { root = x }, nil)
	return out
}

func TestBoundedC14(t *testing.T) {
	seed, _ := strconv.ParseInt(os.Getenv("VERIF_SEED"), 10, 64)
	thorough := os.Getenv("VERIF_TIER") == "thorough"
	maxNodes := 120
	if thorough {
		maxNodes = 100000
	}
	ctx := context.Background()
	c14pub = tbls.PublicKey(testutil.RandomEth2PubKey(t))
	bmock, err := beaconmock.New(ctx)
	if err != nil {
		t.Fatal(err)
	}
	evals, decoded, roundtrips := 0, 0, 0
	var failures []string
	for _, c := range c14cases(t) {
		par := core.ParSignedData{SignedData: c.data, ShareIdx: 1}
		// (1) round trip through protobuf (SSZ or JSON inside), determinism, clone equality
		pb1, err := core.ParSignedDataToProto(par)
		if err != nil {
			t.Fatalf("%s: encode: %v", c.name, err)
		}
		pb2, _ := core.ParSignedDataToProto(par)
		if !bytes.Equal(pb1.GetData(), pb2.GetData()) {
			failures = append(failures, c.name+": encoding is not deterministic")
		}
		back, err := core.ParSignedDataFromProto(c.typ, pb1)
		if err != nil {
			failures = append(failures, fmt.Sprintf("%s: valid encoding rejected: %v", c.name, err))
			continue
		}
		r1, e1 := par.MessageRoot()
		r2, e2 := back.MessageRoot()
		if (e1 == nil) != (e2 == nil) || r1 != r2 || !bytes.Equal(par.Signature(), back.Signature()) {
			failures = append(failures, c.name+": signing root or signature changed by the round trip")
		}
		cl, err := par.Clone()
		if err != nil {
			failures = append(failures, c.name+": clone failed")
		} else if r3, _ := cl.MessageRoot(); r3 != r1 {
			failures = append(failures, c.name+": clone has a different signing root")
		}
		roundtrips++
		// (2) totality under JSON mutation
		doc, err := json.Marshal(c.data)
		if err != nil {
			t.Fatalf("%s: json: %v", c.name, err)
		}
		for _, m := range mutants(doc, maxNodes) {
			evals++
			d, err := core.ParSignedDataFromProto(c.typ, &pbv1.ParSignedData{Data: m.doc, ShareIdx: 1})
			if err != nil {
				continue
			}
			decoded++
			if p := consume(ctx, bmock, d); p != "" {
				failures = append(failures, fmt.Sprintf("%s: decoded JSON mutant [%s] panics in %s", c.name, m.desc, p))
			}
		}
		// SSZ truncations / bit flips of the wire encoding
		wire := pb1.GetData()
		step := 1
		if !thorough && len(wire) > 300 {
			step = len(wire) / 150
		}
		for n := 0; n < len(wire); n += step {
			for _, m := range [][]byte{wire[:n], flip(wire, n, byte(seed)+1)} {
				evals++
				d, err := core.ParSignedDataFromProto(c.typ, &pbv1.ParSignedData{Data: m, ShareIdx: 1})
				if err != nil {
					continue
				}
				decoded++
				if p := consume(ctx, bmock, d); p != "" {
					failures = append(failures, fmt.Sprintf("%s: decoded truncated/flipped wire encoding panics in %s; len=%d; input=%s", c.name, p, len(m), trunc(m)))
				}
			}
		}
	}
	// leading-byte sweep for SSZ types whose first encoded byte is data dependent (slot / index)
	for v := 0; v < 600; v++ {
		msg := testutil.RandomSyncCommitteeMessage()
		msg.Slot = eth2p0.Slot(v)
		contrib := testutil.RandomSignedSyncContributionAndProof()
		contrib.Message.AggregatorIndex = eth2p0.ValidatorIndex(v)
		for _, c := range []c14case{
			{"sync-message", core.DutySyncMessage, core.NewSignedSyncMessage(msg)},
			{"sync-contribution", core.DutySyncContribution, core.NewSignedSyncContributionAndProof(contrib)},
		} {
			par := core.ParSignedData{SignedData: c.data, ShareIdx: 2}
			pb, err := core.ParSignedDataToProto(par)
			if err != nil {
				t.Fatal(err)
			}
			back, err := core.ParSignedDataFromProto(c.typ, pb)
			roundtrips++
			if err != nil {
				failures = append(failures, fmt.Sprintf("%s: valid encoding (leading value %d) rejected: %v", c.name, v, err))
				continue
			}
			r1, _ := par.MessageRoot()
			r2, _ := back.MessageRoot()
			if r1 != r2 {
				failures = append(failures, fmt.Sprintf("%s: round trip changed the signing root (leading value %d)", c.name, v))
			}
		}
	}
	fmt.Printf("BOUNDED evaluations=%d decoded_mutants=%d roundtrips=%d types=%d domain=single-node-json-mutations(<=%d nodes/object)+ssz-truncations+leading-byte-sweep-0..599 seed=%d\n",
		evals, decoded, roundtrips, len(c14cases(t)), maxNodes, seed)
	// recorded known findings (never added at run time): failures of exactly these classes are reported as such
	type kf struct{ Kind, Property, Obligation, What, Match string }
	var known []kf
	root := os.Getenv("VERIF_ROOT")
	if root == "" {
		root = "/verif"
	}
	if b, err := os.ReadFile(root + "/known_findings.json"); err == nil {
		_ = json.Unmarshal(b, &known)
	}
	var rest []string
	reported := map[string]bool{}
	for _, f := range failures {
		matched := false
		for _, k := range known {
			if k.Kind == "known" && k.Property == "C14" && k.Match != "" {
				if ok, _ := regexp.MatchString(k.Match, f); ok {
					matched = true
					if !reported[k.Obligation] {
						reported[k.Obligation] = true
						fmt.Printf("KNOWN-FINDING: property=C14 %s [%s]\n", k.What, k.Obligation)
					}
				}
			}
		}
		if !matched {
			rest = append(rest, f)
		}
	}
	failures = rest
	if len(failures) > 0 {
		sort.Strings(failures)
		seen := map[string]bool{}
		for _, f := range failures {
			key := f
			if i := strings.Index(f, "; input="); i > 0 {
				key = f[:i]
			}
			if i := strings.Index(f, "] panics in "); i > 0 {
				key = f[:i]
			}
			if seen[key] {
				continue
			}
			seen[key] = true
			t.Errorf("%s", f)
		}
	}
}

func flip(b []byte, i int, x byte) []byte {
	c := append([]byte{}, b...)
	if i < len(c) {
		c[i] ^= x
	}
	return c
}

func trunc(b []byte) string {
	if len(b) > 400 {
		return string(b[:400]) + "..."
	}
	return string(b)
}
